(* Codec/ProtoProofs.v — lemmas about Header.v, Bodies.v, Vars.v (C17). *)
From Coq Require Import ZArith.
From FV Require Import Base.Bytes Base.BytesLemmas Gen.Generated Spec.FcgiSpec
  Codec.Varint Codec.VarintProofs Codec.NV Codec.NVProofs Codec.Header Codec.Bodies Codec.Vars.
From Coq Require Import ZifyBool ZifyNat ZifyN.
Ltac Zify.zify_post_hook ::= Z.div_mod_to_equations.

(* ---- the regenerated tables are the specification's ---- *)
Lemma generated_matches_spec :
  VERSION_VALUES = [S_FCGI_VERSION_1] /\
  RTYPE_VALUES = [S_FCGI_BEGIN_REQUEST; S_FCGI_ABORT_REQUEST; S_FCGI_END_REQUEST; S_FCGI_PARAMS; S_FCGI_STDIN;
                  S_FCGI_STDOUT; S_FCGI_STDERR; S_FCGI_DATA; S_FCGI_GET_VALUES; S_FCGI_GET_VALUES_RESULT;
                  S_FCGI_UNKNOWN_TYPE] /\
  (RT_BeginRequest, RT_AbortRequest, RT_EndRequest, RT_Params, RT_Stdin, RT_Stdout, RT_Stderr, RT_Data,
   RT_GetValues, RT_GetValuesResult, RT_Unknown) =
  (S_FCGI_BEGIN_REQUEST, S_FCGI_ABORT_REQUEST, S_FCGI_END_REQUEST, S_FCGI_PARAMS, S_FCGI_STDIN, S_FCGI_STDOUT,
   S_FCGI_STDERR, S_FCGI_DATA, S_FCGI_GET_VALUES, S_FCGI_GET_VALUES_RESULT, S_FCGI_UNKNOWN_TYPE) /\
  ROLE_VALUES = [S_FCGI_RESPONDER; S_FCGI_AUTHORIZER; S_FCGI_FILTER] /\
  (ROLE_Responder, ROLE_Authorizer, ROLE_Filter) = (S_FCGI_RESPONDER, S_FCGI_AUTHORIZER, S_FCGI_FILTER) /\
  PSTATUS_VALUES = [S_FCGI_REQUEST_COMPLETE; S_FCGI_CANT_MPX_CONN; S_FCGI_OVERLOADED; S_FCGI_UNKNOWN_ROLE] /\
  (PS_RequestComplete, PS_CantMpxConn, PS_Overloaded, PS_UnknownRole) =
  (S_FCGI_REQUEST_COMPLETE, S_FCGI_CANT_MPX_CONN, S_FCGI_OVERLOADED, S_FCGI_UNKNOWN_ROLE) /\
  FLAG_KeepConn = S_FCGI_KEEP_CONN /\ FCGI_NULL_REQUEST_ID = S_FCGI_NULL_REQUEST_ID /\
  HEADER_LEN = S_FCGI_HEADER_LEN /\
  map fst PROTOCOL_VARIABLES = [S_FCGI_MAX_CONNS; S_FCGI_MAX_REQS; S_FCGI_MPXS_CONNS] /\
  IS_MANAGEMENT = S_MANAGEMENT /\ ROLE_INPUT_STREAMS = S_ROLE_INPUTS /\ ROLE_OUTPUT_STREAMS = S_OUTPUTS /\
  IS_INPUT_STREAM = [S_FCGI_STDIN; S_FCGI_DATA] /\ IS_OUTPUT_STREAM = S_OUTPUTS.
Proof. repeat split; reflexivity. Qed.

(* next_input_stream walks input_streams: for every role, iterating it from None enumerates the slice *)
Lemma next_stream_walks : forallb (fun r =>
    let s1 := next_input_stream r None in
    let s2 := match s1 with Some x => next_input_stream r (Some x) | None => None end in
    let s3 := match s2 with Some x => next_input_stream r (Some x) | None => None end in
    let l := (match s1 with Some x => [x] | None => [] end) ++ (match s2 with Some x => [x] | None => [] end)
             ++ (match s3 with Some x => [x] | None => [] end) in
    beq l (role_input_streams r)) ROLE_VALUES = true.
Proof. vm_compute. reflexivity. Qed.

(* ---- header ---- *)
Lemma be16_to_be16 v : v < 65536 -> be16 (v / 256 mod 256) (v mod 256) = v.
Proof. unfold be16. lia. Qed.

Lemma to_be16_be16 a b : a < 256 -> b < 256 -> to_be16 (be16 a b) = [a; b].
Proof. unfold to_be16, be16. intros. f_equal; [lia|f_equal; lia]. Qed.

Lemma be32_to_be32 v : v < 4294967296 ->
  be32 (v / 16777216 mod 256) (v / 65536 mod 256) (v / 256 mod 256) (v mod 256) = v.
Proof. unfold be32. lia. Qed.

Lemma to_be32_be32 a b c d : a < 256 -> b < 256 -> c < 256 -> d < 256 -> to_be32 (be32 a b c d) = [a; b; c; d].
Proof. unfold to_be32, be32. intros. f_equal; [lia|f_equal; [lia|f_equal; [lia|f_equal; lia]]]. Qed.

Lemma known_type_range t : known_type t = (1 <=? t) && (t <=? 11).
Proof.
  unfold known_type, memN, RTYPE_VALUES. cbn [existsb].
  destruct (N.leb_spec 1 t), (N.leb_spec t 11); cbn [andb];
    repeat (match goal with |- context [?a =? ?b] => destruct (N.eqb_spec a b) end; cbn [orb]); try reflexivity; lia.
Qed.

Lemma known_version_1 v : known_version v = (v =? 1).
Proof. unfold known_version, memN, VERSION_VALUES. cbn [existsb]. rewrite orb_false_r. reflexivity. Qed.

Lemma hdr_roundtrip t id cl pl : known_type t = true -> id < 65536 -> cl < 65536 -> pl < 256 ->
  hdr_decode (hdr_encode t id cl pl) = HOk t id cl pl.
Proof.
  intros Ht Hid Hcl Hpl. unfold hdr_decode, hdr_encode, to_be16. cbn [app]. nthN_red.
  change (known_version VERSION_V1) with true. cbn [negb]. rewrite Ht. cbn [negb].
  rewrite !be16_to_be16 by assumption. reflexivity.
Qed.

Lemma hdr_encode_len t id cl pl : len (hdr_encode t id cl pl) = 8.
Proof. reflexivity. Qed.

Lemma hdr_encode_ok t id cl pl : t < 256 -> pl < 256 -> bytes_ok (hdr_encode t id cl pl).
Proof.
  intros. unfold hdr_encode, to_be16, VERSION_V1. cbn [app]. unfold bytes_ok, byte_ok. repeat constructor; lia.
Qed.

(* an 8-byte string, explicitly *)
Definition b8 (b0 b1 b2 b3 b4 b5 b6 b7 : N) : bytes := [b0; b1; b2; b3; b4; b5; b6; b7].

Lemma hdr_decode_spec b0 b1 b2 b3 b4 b5 b6 b7 :
  b2 < 256 -> b3 < 256 -> b4 < 256 -> b5 < 256 ->
  hdr_decode (b8 b0 b1 b2 b3 b4 b5 b6 b7) =
    if negb (b0 =? 1) then HBadVersion b0
    else if negb ((1 <=? b1) && (b1 <=? 11)) then HBadType b1
    else HOk b1 (be16 b2 b3) (be16 b4 b5) b6.
Proof.
  intros. unfold hdr_decode, b8. nthN_red.
  rewrite known_version_1, known_type_range. reflexivity.
Qed.

Lemma hdr_decode_encode b0 b1 b2 b3 b4 b5 b6 b7 t id cl pl :
  b2 < 256 -> b3 < 256 -> b4 < 256 -> b5 < 256 ->
  hdr_decode (b8 b0 b1 b2 b3 b4 b5 b6 b7) = HOk t id cl pl ->
  hdr_encode t id cl pl = b8 b0 b1 b2 b3 b4 b5 b6 0 /\ b0 = 1 /\ 1 <= t <= 11.
Proof.
  intros H2 H3 H4 H5. rewrite hdr_decode_spec by assumption.
  destruct (N.eqb_spec b0 1) as [->|]; cbn [negb]; [|discriminate].
  destruct (N.leb_spec 1 b1), (N.leb_spec b1 11); cbn [andb negb]; try discriminate.
  intros E; injection E as <- <- <- <-. unfold hdr_encode, b8, VERSION_V1.
  rewrite !to_be16_be16 by assumption. cbn [app]. repeat split; lia.
Qed.

(* ---- padding rule ---- *)
Lemma pad_rule n : auto_padding n < 8 /\ (n + auto_padding n) mod 8 = 0 /\
  (forall p, (n + p) mod 8 = 0 -> auto_padding n <= p).
Proof.
  unfold auto_padding. destruct (N.ltb_spec 0 (n mod 8)); repeat split; try lia; intros p Hp; lia.
Qed.

(* ---- fixed bodies ---- *)
Lemma known_role_range r : known_role r = (1 <=? r) && (r <=? 3).
Proof.
  unfold known_role, memN, ROLE_VALUES. cbn [existsb].
  destruct (N.leb_spec 1 r), (N.leb_spec r 3); cbn [andb];
    repeat (match goal with |- context [?a =? ?b] => destruct (N.eqb_spec a b) end; cbn [orb]); try reflexivity; lia.
Qed.

Lemma known_status_range s : known_status s = (s <=? 3).
Proof.
  unfold known_status, memN, PSTATUS_VALUES. cbn [existsb].
  destruct (N.leb_spec s 3);
    repeat (match goal with |- context [?a =? ?b] => destruct (N.eqb_spec a b) end; cbn [orb]); try reflexivity; lia.
Qed.

Lemma begin_roundtrip role flags : known_role role = true -> flags < 256 ->
  begin_decode (begin_encode role flags) = (role, Some (role, flags)).
Proof.
  intros Hr Hf. unfold begin_decode, begin_encode, to_be16. cbn [app]. nthN_red.
  rewrite known_role_range in Hr. assert (role < 65536) by lia.
  rewrite be16_to_be16 by assumption. rewrite known_role_range. 
  destruct ((1 <=? role) && (role <=? 3)); [reflexivity|discriminate].
Qed.

Lemma begin_decode_spec b0 b1 b2 b3 b4 b5 b6 b7 :
  begin_decode (b8 b0 b1 b2 b3 b4 b5 b6 b7) =
    (be16 b0 b1, if (1 <=? be16 b0 b1) && (be16 b0 b1 <=? 3) then Some (be16 b0 b1, b2) else None).
Proof. unfold begin_decode, b8. nthN_red. rewrite known_role_range. reflexivity. Qed.

Lemma begin_decode_encode b0 b1 b2 b3 b4 b5 b6 b7 role flags : b0 < 256 -> b1 < 256 ->
  snd (begin_decode (b8 b0 b1 b2 b3 b4 b5 b6 b7)) = Some (role, flags) ->
  begin_encode role flags = b8 b0 b1 b2 0 0 0 0 0 /\ flags = b2.
Proof.
  intros H0 H1. rewrite begin_decode_spec. cbn [snd].
  destruct ((1 <=? be16 b0 b1) && (be16 b0 b1 <=? 3)); [|discriminate].
  intros E; injection E as <- <-. unfold begin_encode. rewrite to_be16_be16 by assumption. split; reflexivity.
Qed.

Lemma end_roundtrip ast ps : ast < 4294967296 -> known_status ps = true ->
  end_decode (end_encode ast ps) = Some (ast, ps).
Proof.
  intros Ha Hs. unfold end_decode, end_encode, to_be32. cbn [app]. nthN_red. rewrite Hs.
  rewrite be32_to_be32 by assumption. reflexivity.
Qed.

Lemma end_decode_spec b0 b1 b2 b3 b4 b5 b6 b7 :
  end_decode (b8 b0 b1 b2 b3 b4 b5 b6 b7) = if b4 <=? 3 then Some (be32 b0 b1 b2 b3, b4) else None.
Proof. unfold end_decode, b8. nthN_red. rewrite known_status_range. reflexivity. Qed.

Lemma end_decode_encode b0 b1 b2 b3 b4 b5 b6 b7 ast ps : b0 < 256 -> b1 < 256 -> b2 < 256 -> b3 < 256 ->
  end_decode (b8 b0 b1 b2 b3 b4 b5 b6 b7) = Some (ast, ps) ->
  end_encode ast ps = b8 b0 b1 b2 b3 b4 0 0 0.
Proof.
  intros H0 H1 H2 H3. rewrite end_decode_spec. destruct (b4 <=? 3); [|discriminate].
  intros E; injection E as <- <-. unfold end_encode. rewrite to_be32_be32 by assumption. reflexivity.
Qed.

Lemma unk_roundtrip t : unk_decode (unk_encode t) = t.
Proof. reflexivity. Qed.

Lemma unk_decode_encode b0 b1 b2 b3 b4 b5 b6 b7 :
  unk_encode (unk_decode (b8 b0 b1 b2 b3 b4 b5 b6 b7)) = b8 b0 0 0 0 0 0 0 0.
Proof. reflexivity. Qed.

(* whole-record encoders: a well-formed 16-byte record with no padding *)
Lemma record_shapes id :
  id < 65536 ->
  (forall t, unk_record t id = hdr_encode RT_Unknown id 8 0 ++ unk_encode t /\ len (unk_record t id) = 16) /\
  (forall role flags, begin_record role flags id = hdr_encode RT_BeginRequest id 8 0 ++ begin_encode role flags
                      /\ len (begin_record role flags id) = 16) /\
  (forall ast ps, end_record ast ps id = hdr_encode RT_EndRequest id 8 0 ++ end_encode ast ps
                  /\ len (end_record ast ps id) = 16) /\
  hdr_decode (take 8 (unk_record 0 id)) = HOk RT_Unknown id 8 0 /\
  hdr_decode (take 8 (begin_record 0 0 id)) = HOk RT_BeginRequest id 8 0 /\
  hdr_decode (take 8 (end_record 0 0 id)) = HOk RT_EndRequest id 8 0.
Proof.
  intros Hid. repeat split; try reflexivity.
  - unfold unk_record. rewrite take_app_le by (rewrite hdr_encode_len; lia).
    rewrite take_all by (rewrite hdr_encode_len; lia). apply hdr_roundtrip; [reflexivity|lia|unfold UnknownType_LEN; lia|lia].
  - unfold begin_record. rewrite take_app_le by (rewrite hdr_encode_len; lia).
    rewrite take_all by (rewrite hdr_encode_len; lia). apply hdr_roundtrip; [reflexivity|lia|unfold BeginRequest_LEN; lia|lia].
  - unfold end_record. rewrite take_app_le by (rewrite hdr_encode_len; lia).
    rewrite take_all by (rewrite hdr_encode_len; lia). apply hdr_roundtrip; [reflexivity|lia|unfold EndRequest_LEN; lia|lia].
Qed.

(* ---- exit status and epilogue ---- *)
Lemma exit_status_map c :
  exit_to_end EXIT_Complete c = Some (c, PS_RequestComplete) /\
  exit_to_end EXIT_Overloaded c = Some (0, PS_Overloaded) /\
  exit_to_end EXIT_UnknownRole c = Some (0, PS_UnknownRole) /\
  EXIT_ABORT_CODE = 1094865492.
Proof. repeat split; reflexivity. Qed.

Lemma epilogue_shape id disc c ast ps : exit_to_end disc c = Some (ast, ps) ->
  epilogue id disc c ROLE_OUTPUT_STREAMS =
    Some (hdr_encode RT_Stdout id 0 0 ++ hdr_encode RT_Stderr id 0 0 ++ end_record ast ps id) /\
  epilogue id disc c [] = Some (end_record ast ps id) /\
  len (hdr_encode RT_Stdout id 0 0 ++ hdr_encode RT_Stderr id 0 0 ++ end_record ast ps id) = EPILOGUE_LEN.
Proof.
  intros H. unfold epilogue. rewrite H. unfold ROLE_OUTPUT_STREAMS. cbn [flat_map app].
  rewrite <- !app_assoc. repeat split; reflexivity.
Qed.

(* ---- decimal rendering of usize ---- *)
Definition digits_val (l : bytes) : N := fold_left (fun a d => a * 10 + (d - 48)) l 0.
Definition is_digit (d : N) : Prop := 48 <= d <= 57.

Lemma digits_val_snoc l d : digits_val (l ++ [d]) = digits_val l * 10 + (d - 48).
Proof. unfold digits_val. rewrite fold_left_app. reflexivity. Qed.

Lemma dec_digits_spec fuel : forall n acc, (0 < fuel)%nat -> n < 10 ^ N.of_nat fuel ->
  exists ds, dec_digits fuel n acc = ds ++ acc /\ 1 <= len ds <= N.of_nat fuel /\ digits_val ds = n /\
             Forall is_digit ds /\ (0 < n -> hd 0 ds <> 48).
Proof.
  induction fuel as [|f IH]; intros n acc Hf Hn; [lia|].
  cbn [dec_digits]. destruct (N.eqb_spec (n / 10) 0) as [Hz|Hz].
  - exists [48 + n mod 10]. repeat split.
    + unfold len; cbn [length]; lia.
    + unfold len; cbn [length]; lia.
    + unfold digits_val; cbn [fold_left]. lia.
    + repeat constructor; lia.
    + cbn [hd]. lia.
  - assert (Hf' : (0 < f)%nat).
    { destruct f; [|lia]. cbn in Hn. lia. }
    assert (Hn' : n / 10 < 10 ^ N.of_nat f).
    { replace (N.of_nat (S f)) with (N.succ (N.of_nat f)) in Hn by lia. rewrite N.pow_succ_r' in Hn. lia. }
    destruct (IH (n / 10) ((48 + n mod 10) :: acc) Hf' Hn') as [ds [E [Hl [Hv [Hd Hh]]]]].
    exists (ds ++ [48 + n mod 10]). repeat split.
    + rewrite E. rewrite <- app_assoc. reflexivity.
    + rewrite len_app. unfold len at 2; cbn [length]. lia.
    + rewrite len_app. unfold len at 2; cbn [length]. lia.
    + rewrite digits_val_snoc, Hv. lia.
    + apply Forall_app; split; [exact Hd|]. repeat constructor; lia.
    + intros _. destruct ds as [|d0 ds']; [unfold len in Hl; cbn in Hl; lia|]. cbn [hd app]. apply Hh. lia.
Qed.

Lemma decimal_spec n : n < 18446744073709551616 ->
  1 <= len (decimal n) <= 20 /\ digits_val (decimal n) = n /\ Forall is_digit (decimal n) /\
  (0 < n -> hd 0 (decimal n) <> 48).
Proof.
  intros H. unfold decimal.
  destruct (dec_digits_spec 20 n [] ltac:(lia)) as [ds [E [Hl [Hv [Hd Hh]]]]].
  { change (N.of_nat 20) with 20. change (10 ^ 20) with 100000000000000000000. lia. }
  rewrite E, app_nil_r. change (N.of_nat 20) with 20 in Hl. tauto.
Qed.

(* ---- GetValuesResult ---- *)
Definition resp_pairs (vars maxc : N) : list (bytes * bytes) :=
  map (fun e => (fst e, var_value maxc (snd e)))
      (filter (fun e => N.land vars (snd e) =? snd e) PROTOCOL_VARIABLES).

Lemma var_value_len maxc bit : maxc < 18446744073709551616 -> len (var_value maxc bit) <= 20.
Proof.
  intros H. unfold var_value. destruct (memN bit PV_MAXCONNS_VALUED).
  - destruct (decimal_spec maxc H) as [Hl _]. lia.
  - unfold PV_CONST_VALUED. cbn [find fst snd]. destruct (4 =? bit); cbn [snd]; unfold len; cbn [length]; lia.
Qed.

Lemma names_short : forallb (fun e => len (fst e) <=? 15) PROTOCOL_VARIABLES = true.
Proof. vm_compute. reflexivity. Qed.

Lemma response_body_is_encoding vars maxc : maxc < 18446744073709551616 ->
  nv_write_all (resp_pairs vars maxc) = Some (response_body vars maxc) /\
  Forall pair_ok (resp_pairs vars maxc) /\
  len (response_body vars maxc) <= 89.
Proof.
  intros Hm. unfold resp_pairs, response_body.
  pose proof names_short as Hs. 
  assert (G : forall tbl, forallb (fun e => len (fst e) <=? 15) tbl = true ->
    nv_write_all (map (fun e => (fst e, var_value maxc (snd e)))
                      (filter (fun e => N.land vars (snd e) =? snd e) tbl)) =
    Some (flat_map (fun e => if N.land vars (snd e) =? snd e
                     then match nv_write (fst e) (var_value maxc (snd e)) with Some b => b | None => [] end
                     else []) tbl) /\
    Forall pair_ok (map (fun e => (fst e, var_value maxc (snd e)))
                      (filter (fun e => N.land vars (snd e) =? snd e) tbl)) /\
    len (flat_map (fun e => if N.land vars (snd e) =? snd e
                     then match nv_write (fst e) (var_value maxc (snd e)) with Some b => b | None => [] end
                     else []) tbl) <= 37 * len tbl).
  { induction tbl as [|[nm bit] t IHt]; intros Ht.
    - cbn. repeat split; [constructor|unfold len; cbn; lia].
    - cbn [forallb fst] in Ht. apply andb_true_iff in Ht as [Hn Ht]. destruct (IHt Ht) as [I1 [I2 I3]].
      cbn [filter flat_map fst snd]. pose proof (var_value_len maxc bit Hm) as Hv.
      assert (Hw : nv_write nm (var_value maxc bit) =
                   Some (vi_write (len nm) ++ vi_write (len (var_value maxc bit)) ++ nm ++ var_value maxc bit)).
      { apply nv_write_some; unfold VARINT_MAX; lia. }
      destruct (N.land vars bit =? bit).
      + cbn [map nv_write_all fst snd]. rewrite Hw, I1. repeat split.
        * constructor; [|exact I2]. split; cbn [fst snd]; unfold VARINT_MAX; lia.
        * rewrite !len_app. rewrite !vi_write_short by lia. rewrite !len_cons.
          change (len (@nil N)) with 0. lia.
      + rewrite I1. cbn [app]. repeat split; [exact I2|]. rewrite len_cons. lia. }
  destruct (G PROTOCOL_VARIABLES Hs) as [G1 [G2 G3]]. repeat split; [exact G1|exact G2|].
  change (len PROTOCOL_VARIABLES) with 3 in G3. 
  (* sharper bound from the concrete table: names 14+13+15, values <= 20+20+1, six length bytes *)
  clear G G1 G2 G3. unfold PROTOCOL_VARIABLES. cbn [flat_map fst snd].
  rewrite !len_app.
  assert (B : forall nm bit b, len nm <= 15 -> 
     len (if N.land vars bit =? bit then match nv_write nm (var_value maxc bit) with Some x => x | None => [] end else b)
       <= N.max (2 + len nm + len (var_value maxc bit)) (len b)).
  { intros nm bit b Hn. pose proof (var_value_len maxc bit Hm) as Hv.
    destruct (N.land vars bit =? bit); [|lia].
    rewrite nv_write_some by (unfold VARINT_MAX; lia). rewrite !len_app.
    rewrite !vi_write_short by lia. rewrite !len_cons. change (len (@nil N)) with 0. lia. }
  pose proof (B [70; 67; 71; 73; 95; 77; 65; 88; 95; 67; 79; 78; 78; 83] 1 [] ltac:(unfold len; cbn; lia)) as B1.
  pose proof (B [70; 67; 71; 73; 95; 77; 65; 88; 95; 82; 69; 81; 83] 2 [] ltac:(unfold len; cbn; lia)) as B2.
  pose proof (B [70; 67; 71; 73; 95; 77; 80; 88; 83; 95; 67; 79; 78; 78; 83] 4 [] ltac:(unfold len; cbn; lia)) as B3.
  pose proof (var_value_len maxc 1 Hm). pose proof (var_value_len maxc 2 Hm).
  assert (len (var_value maxc 4) = 1) by reflexivity.
  change (len (@nil N)) with 0 in *.
  change (len [70; 67; 71; 73; 95; 77; 65; 88; 95; 67; 79; 78; 78; 83]) with 14 in *.
  change (len [70; 67; 71; 73; 95; 77; 65; 88; 95; 82; 69; 81; 83]) with 13 in *.
  change (len [70; 67; 71; 73; 95; 77; 80; 88; 83; 95; 67; 79; 78; 78; 83]) with 15 in *.
  lia.
Qed.

(* the appended bytes are one well-formed GetValuesResult management record *)
Lemma gvr_wellformed vars maxc : maxc < 18446744073709551616 ->
  let body := response_body vars maxc in
  let plen := auto_padding (len body) in
  write_response vars maxc = hdr_encode RT_GetValuesResult FCGI_NULL_REQUEST_ID (len body) plen ++ body ++ zeros plen /\
  hdr_decode (take 8 (write_response vars maxc)) = HOk RT_GetValuesResult 0 (len body) plen /\
  nv_run body = (resp_pairs vars maxc, []) /\
  len (write_response vars maxc) = 8 + len body + plen /\
  len (write_response vars maxc) <= RESPONSE_LEN /\
  len (write_response vars maxc) mod 8 = 0 /\ plen < 8.
Proof.
  intros Hm body plen.
  destruct (response_body_is_encoding vars maxc Hm) as [He [Hok Hlen]]. fold body in He, Hlen.
  assert (Hmod : len body mod 65536 = len body) by (apply N.mod_small; lia).
  assert (Hw : write_response vars maxc = hdr_encode RT_GetValuesResult FCGI_NULL_REQUEST_ID (len body) plen ++ body ++ zeros plen).
  { unfold write_response. fold body. rewrite Hmod. reflexivity. }
  destruct (pad_rule (len body)) as [P1 [P2 _]]. fold plen in P1, P2.
  repeat split.
  - exact Hw.
  - rewrite Hw. rewrite take_app_le by (rewrite hdr_encode_len; lia). rewrite take_all by (rewrite hdr_encode_len; lia).
    apply hdr_roundtrip; [reflexivity|unfold FCGI_NULL_REQUEST_ID; lia|lia|lia].
  - apply nv_roundtrip; assumption.
  - rewrite Hw. rewrite !len_app, hdr_encode_len, len_zeros. lia.
  - rewrite Hw. rewrite !len_app, hdr_encode_len, len_zeros. unfold RESPONSE_LEN. lia.
  - rewrite Hw. rewrite !len_app, hdr_encode_len, len_zeros. lia.
  - exact P1.
Qed.

(* what the listed pairs are: the requested names, declaration order, the documented values *)
Lemma resp_pairs_spec vars maxc :
  resp_pairs vars maxc =
    (if N.land vars 1 =? 1 then [(S_FCGI_MAX_CONNS, decimal maxc)] else []) ++
    (if N.land vars 2 =? 2 then [(S_FCGI_MAX_REQS, decimal maxc)] else []) ++
    (if N.land vars 4 =? 4 then [(S_FCGI_MPXS_CONNS, [48])] else []).
Proof.
  unfold resp_pairs, PROTOCOL_VARIABLES. cbn [filter snd].
  destruct (N.land vars 1 =? 1), (N.land vars 2 =? 2), (N.land vars 4 =? 4); reflexivity.
Qed.
