(* Codec/NVProofs.v — lemmas about Codec/NV.v (C16; reused by the request-parser proofs). *)
From Coq Require Import ZArith.
From FV Require Import Base.Bytes Base.BytesLemmas Gen.Generated Codec.Varint Codec.VarintProofs Codec.NV.
From Coq Require Import ZifyBool ZifyNat ZifyN.
Ltac Zify.zify_post_hook ::= Z.div_mod_to_equations.

(* ---- structural facts about vi_read that need no well-formedness of the bytes ---- *)
Lemma vi_read_split d x c : vi_read d = Some (x, c) ->
  exists h, d = h ++ c /\ (len h = 1 \/ len h = 4).
Proof.
  unfold vi_read. destruct d as [|b0 r]; [discriminate|].
  destruct (N.land b0 VARINT_LONG_BIT =? 0).
  - intros E; injection E as E1 E2; subst x c. exists [b0]. split; [reflexivity|left; reflexivity].
  - destruct r as [|b1 [|b2 [|b3 r']]]; try discriminate.
    intros E; injection E as E1 E2; subst x c. exists [b0; b1; b2; b3]. split; [reflexivity|right; reflexivity].
Qed.

Lemma vi_read_app d x c b : vi_read d = Some (x, c) -> vi_read (d ++ b) = Some (x, c ++ b).
Proof.
  unfold vi_read. destruct d as [|b0 r]; [discriminate|]. cbn [app].
  destruct (N.land b0 VARINT_LONG_BIT =? 0).
  - intros E; injection E as E1 E2; subst x c. reflexivity.
  - destruct r as [|b1 [|b2 [|b3 r']]]; try discriminate.
    intros E; injection E as E1 E2; subst x c. reflexivity.
Qed.

(* ---- nv_next: shape of a successful step ---- *)
Lemma nv_next_shape d n v r : nv_next d = Some (n, v, r) ->
  exists h nl vl c1, vi_read d = Some (nl, c1) /\ vi_read c1 = Some (vl, n ++ v ++ r) /\
    d = h ++ n ++ v ++ r /\ (len h = 2 \/ len h = 5 \/ len h = 8) /\ len n = nl /\ len v = vl.
Proof.
  unfold nv_next. destruct (vi_read d) as [[nl c1]|] eqn:E1; [|discriminate].
  destruct (vi_read c1) as [[vl c2]|] eqn:E2; [|discriminate].
  destruct (vi_read_split _ _ _ E1) as [h1 [Hd H1]].
  destruct (vi_read_split _ _ _ E2) as [h2 [Hc H2]].
  assert (Hhl : len d - len c2 = len h1 + len h2).
  { rewrite Hd, Hc. rewrite !len_app. lia. }
  rewrite Hhl.
  destruct (USIZE_MAX <? len h1 + len h2 + nl + vl) eqn:Eo; [discriminate|].
  destruct (len d <? len h1 + len h2 + nl + vl) eqn:El; [discriminate|].
  intros E. inversion E as [[En Ev Er]]; clear E.
  assert (Hdd : d = (h1 ++ h2) ++ c2) by (rewrite Hd, Hc, app_assoc; reflexivity).
  assert (Hlen : nl + vl <= len c2).
  { apply N.ltb_ge in El. rewrite Hdd in El. rewrite !len_app in El. lia. }
  set (hl := len h1 + len h2) in *.
  assert (Hbody : drop hl (take (hl + nl + vl) d) = take (nl + vl) c2).
  { rewrite Hdd. replace hl with (len (h1 ++ h2)) by (rewrite len_app; reflexivity).
    rewrite take_app_ge by lia. rewrite drop_len_app. f_equal. lia. }
  rewrite Hbody in *.
  assert (Hn : n = take nl c2).
  { rewrite <- En. rewrite take_take. f_equal. lia. }
  assert (Hv : v = take vl (drop nl c2)).
  { rewrite <- Ev. rewrite (take_add nl vl c2). rewrite drop_app_ge by (rewrite len_take; lia).
    rewrite len_take. replace (nl - N.min nl (len c2)) with 0 by lia. reflexivity. }
  assert (Hr : r = drop (nl + vl) c2).
  { rewrite <- Er. rewrite Hdd. rewrite drop_app_ge by (rewrite len_app; unfold hl; lia).
    f_equal. rewrite len_app. unfold hl. lia. }
  assert (Hc2 : c2 = n ++ v ++ r).
  { rewrite Hn, Hv, Hr. rewrite <- (take_drop nl c2) at 1. f_equal.
    rewrite <- (take_drop vl (drop nl c2)) at 1. f_equal. rewrite drop_drop. reflexivity. }
  rewrite En, Ev, Er. exists (h1 ++ h2), nl, vl, c1. rewrite <- Hc2.
  repeat split; try assumption.
  - rewrite len_app. lia.
  - rewrite Hn, len_take. lia.
  - rewrite Hv, len_take, len_drop. lia.
Qed.

Lemma nv_next_split d n v r : nv_next d = Some (n, v, r) ->
  exists h, d = h ++ n ++ v ++ r /\ (len h = 2 \/ len h = 5 \/ len h = 8).
Proof.
  intros H. destruct (nv_next_shape _ _ _ _ H) as [h [nl [vl [c1 [_ [_ [Hd [Hl _]]]]]]]].
  exists h. split; assumption.
Qed.

Lemma nv_next_consumes d n v r : nv_next d = Some (n, v, r) -> len r + 2 <= len d.
Proof.
  intros H. destruct (nv_next_split _ _ _ _ H) as [h [Hd Hl]]. rewrite Hd. rewrite !len_app. lia.
Qed.

Lemma nv_next_consumes_nat d n v r : nv_next d = Some (n, v, r) -> (length r + 2 <= length d)%nat.
Proof. intros H. apply nv_next_consumes in H. unfold len in H. lia. Qed.

(* a successful step is stable under appending more input *)
Lemma nv_next_app d n v r b : nv_next d = Some (n, v, r) -> len (d ++ b) <= USIZE_MAX ->
  nv_next (d ++ b) = Some (n, v, r ++ b).
Proof.
  intros H Hsz. destruct (nv_next_shape _ _ _ _ H) as [h [nl [vl [c1 [E1 [E2 [Hd [Hl [Hn Hv]]]]]]]]].
  unfold nv_next. rewrite (vi_read_app _ _ _ b E1). rewrite (vi_read_app _ _ _ b E2).
  assert (Hhl : len (d ++ b) - len ((n ++ v ++ r) ++ b) = len h).
  { rewrite Hd. rewrite !len_app. lia. }
  rewrite Hhl.
  assert (Hdl : len (d ++ b) = len h + nl + vl + len r + len b).
  { rewrite Hd. rewrite !len_app. lia. }
  destruct (N.ltb_spec USIZE_MAX (len h + nl + vl)); [lia|].
  destruct (N.ltb_spec (len (d ++ b)) (len h + nl + vl)); [lia|].
  assert (Hx : d ++ b = h ++ n ++ v ++ (r ++ b)).
  { rewrite Hd. rewrite <- !app_assoc. reflexivity. }
  rewrite Hx.
  replace (take (len h + nl + vl) (h ++ n ++ v ++ r ++ b)) with (h ++ n ++ v).
  2:{ replace (h ++ n ++ v ++ r ++ b) with ((h ++ n ++ v) ++ (r ++ b)) by (rewrite <- !app_assoc; reflexivity).
      rewrite take_app_le by (rewrite !len_app; lia). rewrite take_all; [reflexivity|rewrite !len_app; lia]. }
  rewrite drop_len_app. rewrite <- Hn. rewrite take_len_app, drop_len_app.
  replace (h ++ n ++ v ++ r ++ b) with ((h ++ n ++ v) ++ (r ++ b)) by (rewrite <- !app_assoc; reflexivity).
  rewrite drop_app_ge by (rewrite !len_app; lia).
  replace (len h + len n + vl - len (h ++ n ++ v)) with 0 by (rewrite !len_app; lia).
  reflexivity.
Qed.

(* no slice operation of NVIter::next can go out of bounds *)
Lemma nv_next_no_panic d : nv_next_inbounds d = true.
Proof.
  unfold nv_next_inbounds. destruct (vi_read d) as [[nl c1]|] eqn:E1; [|reflexivity].
  destruct (vi_read c1) as [[vl c2]|] eqn:E2; [|reflexivity].
  destruct (vi_read_split _ _ _ E1) as [h1 [Hd H1]].
  destruct (vi_read_split _ _ _ E2) as [h2 [Hc H2]].
  destruct (N.ltb_spec USIZE_MAX (len d - len c2 + nl + vl)); [reflexivity|].
  destruct (N.ltb_spec (len d) (len d - len c2 + nl + vl)); [reflexivity|].
  rewrite len_drop, len_take. 
  assert (len c2 <= len d) by (rewrite Hd, Hc, !len_app; lia).
  apply andb_true_iff; split; [apply andb_true_iff; split|]; lia.
Qed.

(* ---- running the iterator ---- *)
Lemma nv_next_nil : nv_next [] = None.
Proof. reflexivity. Qed.

Lemma nv_run_fuel_irrel f1 : forall d f2, (length d <= f1)%nat -> (length d <= f2)%nat ->
  nv_run_fuel f1 d = nv_run_fuel f2 d.
Proof.
  induction f1 as [|f1 IH]; intros d f2 H1 H2.
  - destruct d; [|cbn in H1; lia]. destruct f2; reflexivity.
  - destruct f2 as [|f2].
    + destruct d; [|cbn in H2; lia]. reflexivity.
    + cbn [nv_run_fuel]. destruct (nv_next d) as [[[n v] r]|] eqn:E; [|reflexivity].
      pose proof (nv_next_consumes_nat _ _ _ _ E) as Hc.
      rewrite (IH r f2) by lia. reflexivity.
Qed.

(* unfolding equation of nv_run: fuel never runs out *)
Lemma nv_run_unfold d :
  nv_run d = match nv_next d with
             | None => ([], d)
             | Some (n, v, r) => let '(ps, rest) := nv_run r in ((n, v) :: ps, rest)
             end.
Proof.
  unfold nv_run. destruct d as [|b d'].
  - reflexivity.
  - cbn [length nv_run_fuel]. destruct (nv_next (b :: d')) as [[[n v] r]|] eqn:E; [|reflexivity].
    pose proof (nv_next_consumes_nat _ _ _ _ E) as Hc. cbn [length] in Hc.
    rewrite (nv_run_fuel_irrel (length d') r (length r)) by lia. reflexivity.
Qed.

Lemma nv_run_none d : nv_next d = None -> nv_run d = ([], d).
Proof. intros H. rewrite nv_run_unfold, H. reflexivity. Qed.

(* strong induction principle on the length of a byte string *)
Lemma bytes_len_ind (P : list N -> Prop) :
  (forall d, (forall e, (length e < length d)%nat -> P e) -> P d) -> forall d, P d.
Proof.
  intros H d. remember (length d) as k eqn:Ek. revert d Ek.
  induction k as [k IH] using lt_wf_ind. intros d Ek. apply H. intros e He. apply (IH (length e)); [lia|reflexivity].
Qed.

(* the decoded remainder is a suffix that does not start with a complete pair *)
Lemma nv_run_rest d : exists pre, d = pre ++ snd (nv_run d) /\ nv_next (snd (nv_run d)) = None.
Proof.
  induction d as [d IH] using bytes_len_ind. rewrite nv_run_unfold.
  destruct (nv_next d) as [[[n v] r]|] eqn:E.
  - pose proof (nv_next_consumes_nat _ _ _ _ E) as Hc.
    destruct (IH r ltac:(lia)) as [pre [Hp Hn]].
    destruct (nv_run r) as [ps rest] eqn:Er. cbn [snd] in *.
    destruct (nv_next_split _ _ _ _ E) as [h [Hd _]].
    exists (h ++ n ++ v ++ pre). split; [|exact Hn].
    rewrite Hd. rewrite Hp at 1. rewrite <- !app_assoc. reflexivity.
  - exists []. cbn [snd app]. split; [reflexivity|exact E].
Qed.

(* prefix monotonicity in its exact (additive) form *)
Lemma nv_run_app a : forall b, len (a ++ b) <= USIZE_MAX ->
  nv_run (a ++ b) =
    let '(pa, ra) := nv_run a in let '(pb, rb) := nv_run (ra ++ b) in (pa ++ pb, rb).
Proof.
  induction a as [a IH] using bytes_len_ind. intros b Hsz.
  rewrite (nv_run_unfold a).
  destruct (nv_next a) as [[[n v] r]|] eqn:E.
  - pose proof (nv_next_consumes_nat _ _ _ _ E) as Hc.
    rewrite (nv_run_unfold (a ++ b)). rewrite (nv_next_app _ _ _ _ b E Hsz).
    assert (Hsz' : len (r ++ b) <= USIZE_MAX).
    { pose proof (nv_next_consumes _ _ _ _ E). rewrite len_app in *. lia. }
    rewrite (IH r ltac:(lia) b Hsz').
    destruct (nv_run r) as [pr rr]. destruct (nv_run (rr ++ b)) as [pb rb]. reflexivity.
  - destruct (nv_run (a ++ b)) as [pb rb]. reflexivity.
Qed.

Lemma nv_run_prefix a b : len (a ++ b) <= USIZE_MAX ->
  exists more, fst (nv_run (a ++ b)) = fst (nv_run a) ++ more.
Proof.
  intros H. rewrite (nv_run_app a b H). destruct (nv_run a) as [pa ra].
  destruct (nv_run (ra ++ b)) as [pb rb]. exists pb. reflexivity.
Qed.

(* size hint: at most |d| / 2 pairs *)
Lemma nv_run_count d : 2 * len (fst (nv_run d)) <= len d.
Proof.
  induction d as [d IH] using bytes_len_ind. rewrite nv_run_unfold.
  destruct (nv_next d) as [[[n v] r]|] eqn:E.
  - pose proof (nv_next_consumes_nat _ _ _ _ E) as Hc. pose proof (nv_next_consumes _ _ _ _ E) as Hc'.
    specialize (IH r ltac:(lia)). destruct (nv_run r) as [ps rest]. cbn [fst] in *.
    rewrite len_cons. lia.
  - cbn [fst]. unfold len at 1. cbn [length]. lia.
Qed.

Lemma nv_size_hint_ok d : len (fst (nv_run d)) <= nv_size_hint d.
Proof. unfold nv_size_hint. pose proof (nv_run_count d). lia. Qed.

(* ---- encoder ---- *)
Lemma nv_write_some name value : len name <= VARINT_MAX -> len value <= VARINT_MAX ->
  nv_write name value = Some (vi_write (len name) ++ vi_write (len value) ++ name ++ value).
Proof.
  intros H1 H2. unfold nv_write. rewrite !vi_try_from_usize_spec.
  destruct (N.leb_spec (len name) VARINT_MAX); [|lia]. destruct (N.leb_spec (len value) VARINT_MAX); [|lia].
  reflexivity.
Qed.

Lemma nv_write_rejects name value : VARINT_MAX < len name \/ VARINT_MAX < len value -> nv_write name value = None.
Proof.
  intros H. unfold nv_write. rewrite !vi_try_from_usize_spec.
  destruct (N.leb_spec (len name) VARINT_MAX); [|reflexivity].
  destruct (N.leb_spec (len value) VARINT_MAX); [lia|reflexivity].
Qed.

Lemma nv_write_len name value e : nv_write name value = Some e -> len e = nv_write_count name value.
Proof.
  unfold nv_write, nv_write_count. rewrite !vi_try_from_usize_spec.
  destruct (len name <=? VARINT_MAX); [|discriminate]. destruct (len value <=? VARINT_MAX); [|discriminate].
  intros E; inversion E; subst. rewrite !len_app. lia.
Qed.

Lemma nv_next_write name value rest :
  len name <= VARINT_MAX -> len value <= VARINT_MAX ->
  nv_next (vi_write (len name) ++ vi_write (len value) ++ name ++ value ++ rest) = Some (name, value, rest).
Proof.
  intros H1 H2. unfold nv_next.
  rewrite vi_roundtrip by exact H1. rewrite vi_roundtrip by exact H2.
  pose proof (vi_write_len _ H1) as L1. pose proof (vi_write_len _ H2) as L2.
  set (h1 := vi_write (len name)) in *. set (h2 := vi_write (len value)) in *.
  assert (Hh : len (h1 ++ h2 ++ name ++ value ++ rest) - len (name ++ value ++ rest) = len h1 + len h2).
  { rewrite !len_app. lia. }
  rewrite Hh. unfold VARINT_MAX, USIZE_MAX in *.
  assert (len h1 <= 4) by (destruct (len name <? 128); lia).
  assert (len h2 <= 4) by (destruct (len value <? 128); lia).
  destruct (N.ltb_spec 18446744073709551615 (len h1 + len h2 + len name + len value)); [lia|].
  destruct (N.ltb_spec (len (h1 ++ h2 ++ name ++ value ++ rest)) (len h1 + len h2 + len name + len value));
    [rewrite !len_app in *; lia|].
  replace (h1 ++ h2 ++ name ++ value ++ rest) with ((h1 ++ h2) ++ (name ++ value) ++ rest)
    by (rewrite <- !app_assoc; reflexivity).
  replace (len h1 + len h2 + len name + len value) with (len (h1 ++ h2) + len (name ++ value))
    by (rewrite !len_app; lia).
  replace (len h1 + len h2) with (len (h1 ++ h2)) by (rewrite len_app; reflexivity).
  set (HH := h1 ++ h2). set (B := name ++ value).
  assert (T : take (len HH + len B) (HH ++ B ++ rest) = HH ++ B).
  { rewrite app_assoc. rewrite take_app_le by (rewrite len_app; lia).
    apply take_all. rewrite len_app. lia. }
  rewrite T. rewrite drop_len_app. unfold B. rewrite take_len_app, drop_len_app.
  fold B. rewrite app_assoc. rewrite drop_app_ge by (rewrite len_app; lia).
  replace (len HH + len B - len (HH ++ B)) with 0 by (rewrite len_app; lia). reflexivity.
Qed.


Lemma nv_write_all_some ps : Forall pair_ok ps ->
  exists e, nv_write_all ps = Some e.
Proof.
  induction 1 as [|[n v] t [Hn Hv] _ [e IH]]; cbn [nv_write_all]; [eexists; reflexivity|].
  cbn [fst snd] in *. rewrite nv_write_some by assumption. rewrite IH. eexists; reflexivity.
Qed.

(* decoding the concatenated encodings yields exactly the pairs, nothing left over *)
Lemma nv_roundtrip ps : Forall pair_ok ps -> forall e, nv_write_all ps = Some e -> nv_run e = (ps, []).
Proof.
  induction 1 as [|[n v] t [Hn Hv] Ht IH]; intros e He; cbn [nv_write_all] in He.
  - inversion He; subst. reflexivity.
  - cbn [fst snd] in *. rewrite nv_write_some in He by assumption.
    destruct (nv_write_all t) as [et|] eqn:Et; [|discriminate]. inversion He; subst; clear He.
    rewrite nv_run_unfold. rewrite <- !app_assoc. rewrite nv_next_write by assumption.
    rewrite (IH et eq_refl). reflexivity.
Qed.
