(* Codec/Vars.v — model of src/protocol/vars.rs: ProtocolVariables::parse_name / write_response,
   and of usize -> decimal text (to_compact_string).  No proofs here. *)
From FV Require Import Base.Bytes Gen.Generated Codec.Varint Codec.NV Codec.Header.

(* decimal digits of n, most significant first; fuel 20 suffices for n < 2^64 *)
Fixpoint dec_digits (fuel : nat) (n : N) (acc : bytes) : bytes :=
  match fuel with
  | O => acc
  | S f => let acc' := (48 + n mod 10) :: acc in
           if n / 10 =? 0 then acc' else dec_digits f (n / 10) acc'
  end.
Definition decimal (n : N) : bytes := dec_digits 20 n [].

(* ProtocolVariables::parse_name (vars.rs:38-44): exact match against the declared flag names;
   None = ProtocolError::UnknownVariable.  Result is the flag's bit. *)
Definition parse_name (name : bytes) : option N :=
  match find (fun e => beq (fst e) name) PROTOCOL_VARIABLES with Some e => Some (snd e) | None => None end.

(* parser::parse_nv_var (parser/mod.rs:96-108) over a list of pairs: union of the known names' bits *)
Definition vars_of_pairs (vars : N) (ps : list (bytes * bytes)) : N :=
  fold_left (fun acc p => match parse_name (fst p) with Some b => N.lor acc b | None => acc end) ps vars.

Definition var_value (maxc : N) (bit : N) : bytes :=
  if memN bit PV_MAXCONNS_VALUED then decimal maxc
  else match find (fun e => fst e =? bit) PV_CONST_VALUED with Some e => snd e | None => [] end.

(* body of the GetValuesResult: iter_names() yields the contained flags in declaration order *)
Definition response_body (vars maxc : N) : bytes :=
  flat_map (fun e => if N.land vars (snd e) =? snd e
                     then match nv_write (fst e) (var_value maxc (snd e)) with Some b => b | None => [] end
                     else [])
           PROTOCOL_VARIABLES.

(* ProtocolVariables::write_response (vars.rs:60-88): bytes appended to `out` *)
Definition write_response (vars maxc : N) : bytes :=
  let body := response_body vars maxc in
  let clen := len body mod 65536 in                    (* `len as u16` *)
  let plen := auto_padding clen in
  hdr_encode RT_GetValuesResult FCGI_NULL_REQUEST_ID clen plen ++ body ++ zeros plen.
