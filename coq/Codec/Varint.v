(* Codec/Varint.v — model of src/protocol/varint.rs (VarInt::read / write / TryFrom). No proofs here. *)
From FV Require Import Base.Bytes Gen.Generated.

(* VarInt::read(r) for a slice reader, varint.rs:24-34.  None = io::ErrorKind::UnexpectedEof. *)
Definition vi_read (d : bytes) : option (N * bytes) :=
  match d with
  | [] => None
  | b0 :: r =>
    if N.land b0 VARINT_LONG_BIT =? 0 then Some (b0, r)
    else match r with
         | b1 :: b2 :: b3 :: r' => Some (be32 (N.land b0 (255 - VARINT_LONG_BIT)) b1 b2 b3, r')
         | _ => None
         end
  end.

(* VarInt::write, varint.rs:40-49: returns the bytes written. *)
Definition vi_write (v : N) : bytes :=
  if v <? VARINT_LONG_BIT then [v mod 256]
  else match to_be32 v with
       | e0 :: e => N.lor e0 VARINT_LONG_BIT :: e
       | [] => []
       end.

(* TryFrom<u32> for VarInt (varint.rs:93-101) and TryFrom<usize> (varint.rs:111-116):
   None = ProtocolError::InvalidVarInt. *)
Definition vi_try_from_u32 (v : N) : option N := if VARINT_MAX <? v then None else Some v.
Definition vi_try_from_usize (v : N) : option N :=
  if v <? 4294967296 then vi_try_from_u32 v else None.
