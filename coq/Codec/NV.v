(* Codec/NV.v — model of src/protocol/nv.rs (NVIter::next, nv::write). No proofs here. *)
From FV Require Import Base.Bytes Gen.Generated Codec.Varint.

Definition USIZE_MAX : N := 18446744073709551615.

(* NVIter::next, nv.rs:37-57.  None = the iterator yields None and leaves `data` untouched.
   The three slice operations of the Rust code (split_at total, advance_by head, split_at name_len)
   are take/drop here; [nv_next_inbounds] below states that each is within bounds, i.e. no panic. *)
Definition nv_next (d : bytes) : option (bytes * bytes * bytes) :=
  match vi_read d with
  | None => None
  | Some (name_len, c1) =>
    match vi_read c1 with
    | None => None
    | Some (val_len, c2) =>
      let head_len := len d - len c2 in
      let total := head_len + name_len + val_len in
      if USIZE_MAX <? total then None                       (* checked_add overflow *)
      else if len d <? total then None                      (* self.data.len() >= total_len *)
      else
        let nv := take total d in
        let body := drop head_len nv in
        Some (take name_len body, drop name_len body, drop total d)
    end
  end.

(* the bounds the Rust slice operations need (a violated bound is a panic in the real code) *)
Definition nv_next_inbounds (d : bytes) : bool :=
  match vi_read d with
  | None => true
  | Some (name_len, c1) =>
    match vi_read c1 with
    | None => true
    | Some (val_len, c2) =>
      let head_len := len d - len c2 in
      let total := head_len + name_len + val_len in
      if USIZE_MAX <? total then true
      else if len d <? total then true
      else (total <=? len d) && (head_len <=? len (take total d))
           && (name_len <=? len (drop head_len (take total d)))
    end
  end.

(* the iterator driven to exhaustion + into_inner: (pairs, remaining input).
   Every pair consumes at least 2 bytes, so [length d] steps of fuel always suffice. *)
Fixpoint nv_run_fuel (fuel : nat) (d : bytes) : list (bytes * bytes) * bytes :=
  match fuel with
  | O => ([], d)
  | S f =>
    match nv_next d with
    | None => ([], d)
    | Some (n, v, r) => let '(ps, rest) := nv_run_fuel f r in ((n, v) :: ps, rest)
    end
  end.
Definition nv_run (d : bytes) : list (bytes * bytes) * bytes := nv_run_fuel (length d) d.

(* NVIter::size_hint upper bound *)
Definition nv_size_hint (d : bytes) : N := len d / 2.

(* nv::write, nv.rs:72-84: None = io::ErrorKind::InvalidInput; Some bytes = what was written
   (the returned count is [nv_write_count]). *)
Definition nv_write (name value : bytes) : option bytes :=
  match vi_try_from_usize (len name) with
  | None => None
  | Some nl =>
    match vi_try_from_usize (len value) with
    | None => None
    | Some vl => Some (vi_write nl ++ vi_write vl ++ name ++ value)
    end
  end.
Definition nv_write_count (name value : bytes) : N :=
  len (vi_write (len name)) + len (vi_write (len value)) + len name + len value.

Fixpoint nv_write_all (ps : list (bytes * bytes)) : option bytes :=
  match ps with
  | [] => Some []
  | (n, v) :: t =>
    match nv_write n v, nv_write_all t with
    | Some e, Some r => Some (e ++ r)
    | _, _ => None
    end
  end.

(* a pair whose components are encodable: both lengths fit a VarInt *)
Definition pair_ok (p : bytes * bytes) : Prop := len (fst p) <= VARINT_MAX /\ len (snd p) <= VARINT_MAX.
