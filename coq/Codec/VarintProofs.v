(* Codec/VarintProofs.v — lemmas about Codec/Varint.v (C15). *)
From Coq Require Import ZArith.
From FV Require Import Base.Bytes Base.BytesLemmas Gen.Generated Codec.Varint.
From Coq Require Import ZifyBool ZifyNat ZifyN.
Ltac Zify.zify_post_hook ::= Z.div_mod_to_equations.

(* bridges between the bit operations of the code and arithmetic: finite sweeps over one byte,
   lifted by sweep_byte (the domain really is finite: a byte). *)
Lemma land_128_zero b : b < 256 -> (N.land b 128 =? 0) = (b <? 128).
Proof.
  intros H.
  apply (sweep_byte (fun b => Bool.eqb (N.land b 128 =? 0) (b <? 128)))
    in H; [|vm_compute; reflexivity].
  apply Bool.eqb_prop in H. exact H.
Qed.

Lemma land_127 b : b < 256 -> N.land b 127 = b mod 128.
Proof.
  intros H. apply N.eqb_eq.
  apply (sweep_byte (fun b => N.land b 127 =? b mod 128)); [vm_compute; reflexivity|exact H].
Qed.

Lemma lor_128 b : b < 128 -> N.lor b 128 = b + 128.
Proof.
  intros H. apply N.eqb_eq.
  apply (sweep_lt (fun b => N.lor b 128 =? b + 128) 128); [vm_compute; reflexivity|exact H].
Qed.

Lemma vi_read_short b r : b < 128 -> vi_read (b :: r) = Some (b, r).
Proof.
  intros H. unfold vi_read, VARINT_LONG_BIT. rewrite land_128_zero by lia.
  destruct (N.ltb_spec b 128); [reflexivity|lia].
Qed.

Lemma vi_read_long b0 b1 b2 b3 r :
  128 <= b0 -> b0 < 256 ->
  vi_read (b0 :: b1 :: b2 :: b3 :: r) = Some (be32 (b0 - 128) b1 b2 b3, r).
Proof.
  intros H1 H2. unfold vi_read, VARINT_LONG_BIT. rewrite land_128_zero by lia.
  destruct (N.ltb_spec b0 128); [lia|]. change (255 - 128) with 127. rewrite land_127 by lia.
  do 3 f_equal. lia.
Qed.

(* shape of the encoding *)
Lemma vi_write_short v : v < 128 -> vi_write v = [v].
Proof.
  intros H. unfold vi_write, VARINT_LONG_BIT. destruct (N.ltb_spec v 128); [|lia].
  rewrite N.mod_small by lia. reflexivity.
Qed.

Lemma vi_write_long v : 128 <= v -> v <= VARINT_MAX ->
  vi_write v = [v / 16777216 + 128; v / 65536 mod 256; v / 256 mod 256; v mod 256].
Proof.
  unfold VARINT_MAX. intros H1 H2. unfold vi_write, VARINT_LONG_BIT, to_be32.
  destruct (N.ltb_spec v 128); [lia|].
  assert (Hs : v / 16777216 < 128) by lia.
  rewrite (N.mod_small (v / 16777216)) by lia. rewrite lor_128 by lia. reflexivity.
Qed.

Lemma vi_write_len v : v <= VARINT_MAX ->
  len (vi_write v) = if v <? 128 then 1 else 4.
Proof.
  intros H. destruct (N.ltb_spec v 128).
  - rewrite vi_write_short by lia. reflexivity.
  - rewrite vi_write_long by lia. reflexivity.
Qed.

Lemma vi_write_ok v : v <= VARINT_MAX -> bytes_ok (vi_write v).
Proof.
  unfold VARINT_MAX. intros H. destruct (N.ltb_spec v 128).
  - rewrite vi_write_short by lia. repeat constructor. unfold byte_ok. lia.
  - rewrite vi_write_long by (unfold VARINT_MAX; lia). unfold bytes_ok, byte_ok.
    repeat constructor; lia.
Qed.

(* round trip *)
Lemma vi_roundtrip v rest : v <= VARINT_MAX -> vi_read (vi_write v ++ rest) = Some (v, rest).
Proof.
  unfold VARINT_MAX. intros H. destruct (N.ltb_spec v 128).
  - rewrite vi_write_short by lia. cbn [app]. apply vi_read_short. exact H0.
  - rewrite vi_write_long by (unfold VARINT_MAX; lia). cbn [app].
    rewrite vi_read_long by lia. unfold be32. do 2 f_equal. lia.
Qed.

Lemma vi_write_inj v w : v <= VARINT_MAX -> w <= VARINT_MAX -> vi_write v = vi_write w -> v = w.
Proof.
  intros Hv Hw E.
  pose proof (vi_roundtrip v [] Hv) as R1. pose proof (vi_roundtrip w [] Hw) as R2.
  rewrite E in R1. rewrite R1 in R2. congruence.
Qed.

(* decoding succeeds exactly when the 1 or 4 bytes announced by the first byte are present *)
Lemma vi_read_complete d : bytes_ok d ->
  match vi_read d with
  | Some (v, r) => v <= VARINT_MAX /\
                   exists h, d = h ++ r /\
                     match d with b0 :: _ => len h = (if b0 <? 128 then 1 else 4) | [] => False end
  | None => match d with [] => True | b0 :: r => 128 <= b0 /\ len r < 3 end
  end.
Proof.
  intros Hok. destruct d as [|b0 r]; [exact I|].
  inversion Hok as [|? ? Hb0 Hr]; subst. unfold byte_ok in Hb0.
  unfold vi_read, VARINT_LONG_BIT, VARINT_MAX. rewrite land_128_zero by lia.
  destruct (N.ltb_spec b0 128) as [Hl|Hl].
  - split; [lia|]. exists [b0]. split; reflexivity.
  - destruct r as [|b1 [|b2 [|b3 r']]]; try (split; [lia|unfold len; cbn [length]; lia]).
    change (255 - 128) with 127. rewrite land_127 by lia.
    inversion Hr as [|? ? Hb1 Hr1]; subst. inversion Hr1 as [|? ? Hb2 Hr2]; subst.
    inversion Hr2 as [|? ? Hb3 Hr3]; subst. unfold byte_ok in *.
    split; [unfold be32; lia|]. exists [b0; b1; b2; b3]. split; reflexivity.
Qed.

(* decoding any encoding and re-encoding yields the canonical form; equal to the input iff canonical *)
Lemma vi_read_write d v r : bytes_ok d -> vi_read d = Some (v, r) ->
  vi_read (vi_write v ++ r) = Some (v, r) /\
  (forall h, d = h ++ r -> len h = len (vi_write v) -> h = vi_write v).
Proof.
  intros Hok Hrd. pose proof (vi_read_complete d Hok) as C. rewrite Hrd in C.
  destruct C as [Hmax [h [Hd Hl]]]. split; [apply vi_roundtrip; exact Hmax|].
  intros h' Hd' Hl'.
  assert (Rt := vi_roundtrip v r Hmax).
  destruct d as [|b0 d']; [contradiction|].
  inversion Hok as [|? ? Hb0 Hr]; subst. unfold byte_ok in Hb0.
  unfold VARINT_MAX in Hmax.
  revert Hrd. unfold vi_read, VARINT_LONG_BIT. rewrite land_128_zero by lia.
  destruct (N.ltb_spec b0 128) as [Hs|Hs].
  - intros E; inversion E; subst. rewrite vi_write_short in * by lia.
    destruct h' as [|x [|y h'']]; unfold len in Hl'; cbn [length] in Hl'; try lia.
    cbn [app] in Hd'. congruence.
  - destruct d' as [|b1 [|b2 [|b3 r']]]; try discriminate. intros E; inversion E; subst.
    change (255 - 128) with 127 in *. rewrite land_127 in * by lia.
    inversion Hr as [|? ? Hb1 Hr1]; subst. inversion Hr1 as [|? ? Hb2 Hr2]; subst.
    inversion Hr2 as [|? ? Hb3 Hr3]; subst. unfold byte_ok in *.
    remember (be32 (b0 mod 128) b1 b2 b3) as v.
    destruct (N.ltb_spec v 128) as [Hv|Hv].
    + rewrite vi_write_short in * by lia.
      destruct h' as [|x [|y h'']]; unfold len in Hl'; cbn [length] in Hl'; try lia.
      (* a 4-byte encoding of a small value: not canonical, lengths differ *)
      cbn [app] in Hd'. inversion Hd' as [[E0 E1]]. 
      assert (len (b1 :: b2 :: b3 :: r) = len r) by congruence.
      rewrite !len_cons in H. lia.
    + rewrite vi_write_long in * by (unfold VARINT_MAX; lia).
      destruct h' as [|x0 [|x1 [|x2 [|x3 [|x4 h'']]]]]; unfold len in Hl'; cbn [length] in Hl'; try lia.
      cbn [app] in Hd'. inversion Hd'; subst x0 x1 x2 x3. 
      subst v. unfold be32. f_equal; [lia|]. f_equal; [lia|]. f_equal; [lia|]. f_equal; lia.
Qed.

(* conversions *)
Lemma vi_try_from_u32_spec x : vi_try_from_u32 x = if x <=? VARINT_MAX then Some x else None.
Proof. unfold vi_try_from_u32. destruct (N.ltb_spec VARINT_MAX x), (N.leb_spec x VARINT_MAX); try reflexivity; lia. Qed.

Lemma vi_try_from_usize_spec x : vi_try_from_usize x = if x <=? VARINT_MAX then Some x else None.
Proof.
  unfold vi_try_from_usize. rewrite vi_try_from_u32_spec. unfold VARINT_MAX.
  destruct (N.ltb_spec x 4294967296), (N.leb_spec x 2147483647); try reflexivity; lia.
Qed.
