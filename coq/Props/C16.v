(* Props/C16.v — Name-value codec round-trips; decoder is total, prefix-monotone (and, by the
   harness, zero-copy).  Only statements.  Model: Codec/NV.v (src/protocol/nv.rs). *)
From FV Require Import Base.Bytes Gen.Generated Codec.Varint Codec.NV Codec.NVProofs.

(* every list of pairs with lengths < 2^31 is encodable ... *)
Theorem C16_encodable : forall ps, Forall pair_ok ps -> exists e, nv_write_all ps = Some e.
Proof. exact nv_write_all_some. Qed.

(* ... and decoding the concatenated encodings yields exactly those pairs, in order, nothing left *)
Theorem C16_roundtrip : forall ps, Forall pair_ok ps -> forall e, nv_write_all ps = Some e -> nv_run e = (ps, []).
Proof. exact nv_roundtrip. Qed.

(* the encoder reports exactly the bytes it wrote; its output is lengths ++ name ++ value *)
Theorem C16_write_count : forall name value e, nv_write name value = Some e -> len e = nv_write_count name value.
Proof. exact nv_write_len. Qed.

Theorem C16_write_shape : forall name value, len name <= VARINT_MAX -> len value <= VARINT_MAX ->
  nv_write name value = Some (vi_write (len name) ++ vi_write (len value) ++ name ++ value).
Proof. exact nv_write_some. Qed.

(* a component of 2^31 bytes or more is rejected (InvalidInput), nothing is claimed written *)
Theorem C16_write_rejects : forall name value, VARINT_MAX < len name \/ VARINT_MAX < len value -> nv_write name value = None.
Proof. exact nv_write_rejects. Qed.

(* on arbitrary bytes no slice operation of the decoder is out of bounds (no panic) *)
Theorem C16_total : forall d, nv_next_inbounds d = true.
Proof. exact nv_next_no_panic. Qed.

(* a yielded pair consists of consecutive sub-slices of the input after a 2-, 5- or 8-byte header *)
Theorem C16_subslices : forall d n v r, nv_next d = Some (n, v, r) ->
  exists h, d = h ++ n ++ v ++ r /\ (len h = 2 \/ len h = 5 \/ len h = 8).
Proof. exact nv_next_split. Qed.

(* it stops for good at the first incomplete pair and hands back exactly the undecoded suffix *)
Theorem C16_fused : forall d, nv_next d = None -> nv_run d = ([], d).
Proof. exact nv_run_none. Qed.

Theorem C16_rest_is_suffix : forall d, exists pre, d = pre ++ snd (nv_run d) /\ nv_next (snd (nv_run d)) = None.
Proof. exact nv_run_rest. Qed.

(* prefix monotonicity, exact form: decoding a ++ b = decoding a, then continuing on rest(a) ++ b *)
Theorem C16_prefix_additive : forall a b, len (a ++ b) <= USIZE_MAX ->
  nv_run (a ++ b) = let '(pa, ra) := nv_run a in let '(pb, rb) := nv_run (ra ++ b) in (pa ++ pb, rb).
Proof. exact nv_run_app. Qed.

Theorem C16_prefix_mono : forall a b, len (a ++ b) <= USIZE_MAX ->
  exists more, fst (nv_run (a ++ b)) = fst (nv_run a) ++ more.
Proof. exact nv_run_prefix. Qed.

(* the number of pairs never exceeds the size hint |d| / 2 *)
Theorem C16_size_hint : forall d, len (fst (nv_run d)) <= nv_size_hint d.
Proof. exact nv_size_hint_ok. Qed.

Example C16_example :
  nv_write_all [([65; 66], [1]); ([], [])] = Some [2; 1; 65; 66; 1; 0; 0]
  /\ nv_run [2; 1; 65; 66; 1; 0; 0; 5] = ([([65; 66], [1]); ([], [])], [5])
  /\ Forall pair_ok [([65; 66], [1]); ([], [])].
Proof. split; [reflexivity|split; [reflexivity|]]. repeat constructor; cbn; unfold VARINT_MAX; lia. Qed.
