(* Props/C13.v — Never more live connection tokens than max_conns; freed slots wake waiters.
   Only statements.  Model: Async/Tokens.v (Runner::get_token = async-lock 3.4.0 Semaphore::acquire_arc over
   event-listener 5.3.1, modelled from their sources; token drop = release + notify(1)). *)
From FV Require Import Base.Bytes Async.Tokens Async.SyncTargets Async.SyncProofs.

(* after EVERY history of get_token / poll / drop-token / drop-pending-request operations, for every
   limit: live tokens + free permits = limit, so live tokens never exceed the limit *)
Theorem C13_bound : forall maxc ops,
  let s := fst (trun maxc ops) in
  permits s + len (live s) = maxc /\ len (live s) <= maxc /\ NoDup (live s).
Proof. exact SyncProofs.C13_bound. Qed.

(* a request polled while a slot is free completes immediately (whatever is queued) *)
Theorem C13_immediate : forall maxc ops i,
  let s := fst (trun maxc ops) in
  0 < permits s -> fut_listener i (futs s) <> None -> fst (poll_fut i s) = true.
Proof. exact SyncProofs.C13_immediate. Qed.

(* a freed slot is never stranded: whenever a slot is free while requests are queued, one of the queued
   listeners has been notified — also after cancellations and after several releases in a row *)
Theorem C13_not_stranded : forall maxc ops,
  let s := fst (trun maxc ops) in
  0 < permits s -> lst s <> [] -> exists id, In (id, LNotified) (lst s).
Proof. exact SyncProofs.C13_not_stranded. Qed.

(* queued listeners belong to pending requests; wake counters only grow (a notification of a
   registered listener is an invocation of that request's waker: notify_first) *)
Theorem C13_listeners_owned : forall maxc ops id st,
  let s := fst (trun maxc ops) in
  In (id, st) (lst s) -> exists i, In (i, Some id) (futs s).
Proof. exact SyncProofs.C13_listeners_owned. Qed.

Theorem C13_wakes_monotone : forall maxc ops o i c,
  let st := trun maxc ops in
  In (i, c) (wakes (fst st)) -> exists c', In (i, c') (wakes (fst (tstep st o))) /\ c <= c'.
Proof. exact SyncProofs.C13_wakes_monotone. Qed.

(* non-vacuity: limit 1, a waiter queued, the token dropped: the slot is free and the waiter notified *)
Example C13_example :
  let s := fst (trun 1 [TNew; TPoll 0; TNew; TPoll 1; TDropToken 0]) in
  permits s = 1 /\ lst s = [(0, LNotified)] /\ wakes s = [(1, 1); (0, 0)].
Proof. vm_compute. repeat split. Qed.
