(* Props/C05.v — No input byte is lost, duplicated or reordered across parser hand-offs.
   Only statements.  Request-parser hand-offs here; stream-parser hand-offs and the k-request chain
   are added as the stream-parser proofs complete. *)
From FV Require Import Base.Bytes Gen.Generated Codec.Varint Codec.NV Codec.Header Codec.Bodies Codec.Vars Parser.ReqModel Parser.ReqParamsSpec Parser.ReqWire Parser.ReqTargets Parser.ReqFinal Parser.StreamModel Parser.AbsStream Parser.StreamSpec Parser.StreamRefine Parser.StreamInv Parser.StreamFinal.

(* after any schedule over any bytes: what was fed = consumed ++ what the parser still holds, and
   the not-yet-fed bytes follow: nothing lost, duplicated or reordered *)
Theorem C05_leftover_req : forall (norm : bytes -> bytes) (maxc : N) B wire sched,
  B < SIZE_LIMIT - 8 -> bytes_ok wire -> len wire < SIZE_LIMIT ->
  exists p d u o, run_schedule norm maxc (new_parser B) wire sched = SOk p d u o /\ parser_ok p /\
                  (d = false -> u = []) /\ (d = true <-> is_final (st p) = true) /\
                  (exists c, wire = c ++ held p ++ u).
Proof. exact F_sched_total. Qed.

(* into_request hands back exactly the held bytes; into_stream_parser hands exactly those bytes
   over as the stream parser's unparsed input (by definition of the models, stated for the record) *)
Theorem C05_into_request_leftover : forall p r, st p = Done r -> into_request p = inl (r, held p).
Proof. intros p r H. unfold into_request. rewrite H. reflexivity. Qed.

Theorem C05_into_stream_parser_leftover : forall p r, st p = Done r -> len (held p) <= cap p ->
  exists sp, into_stream_parser p = inl sp /\ raw_bytes sp = held p /\ stream_buffer sp = [] /\ sreq sp = r.
Proof.
  intros p r H Hc. unfold into_stream_parser. rewrite H. eexists. split; [reflexivity|].
  unfold raw_bytes, stream_buffer, slice. cbn [raw_start free_start buffer parsed_start gap_start sreq].
  repeat split.
  rewrite BytesLemmas.drop_0. replace (len (held p) - 0) with (len (held p)) by lia.
  apply BytesLemmas.take_len_app.
Qed.

(* on a well-formed preamble the leftover ++ unfed is exactly the bytes after the preamble,
   for every look-ahead the schedule produced (C01_exact, third conjunct) *)
Theorem C05_leftover_exact : forall (norm : bytes -> bytes) (maxc : N) B w pairs trailing sched,
  B < SIZE_LIMIT - 8 ->
  preamble_ok w -> Forall pair_ok pairs -> nv_write_all pairs = Some (preamble_payload w) ->
  Forall (pair_fits (aligned_bufsize B)) pairs -> preamble_fits (aligned_bufsize B) w ->
  bytes_ok trailing -> len (enc_rcds (preamble_rcds w) ++ trailing) < SIZE_LIMIT ->
  exists p unfed o, run_schedule norm maxc (new_parser B) (enc_rcds (preamble_rcds w) ++ trailing) sched = SOk p true unfed o /\
                    held p ++ unfed = trailing.
Proof.
  intros norm maxc B w pairs trailing sched H1 H2 H3 H4 H5 H6 H7 H8.
  destruct (F_preamble_exact norm maxc B w pairs trailing sched H1 H2 H3 H4 H5 H6 H7 H8) as [p [u [E [_ L]]]].
  exists p, u, (preamble_replies maxc w). split; assumption.
Qed.

(* ==== pinned from the proof files (tools/write_props.py) ==== *)

(* ---- stream parser and the hand-off back ----  over every legal schedule the unparsed input is exactly the
   unread suffix of (leftover ++ fed); at a record boundary with the output taken, into_request_parser succeeds
   and the new request parser holds exactly those bytes (capacity unchanged, state Header); into_input returns
   them; off a boundary both refuse *)
Theorem C05_stream_handoff :
  forall (maxc : N) (p0 : sp) (ops : list cop),
  sp_inv p0 ->
  csched_legal maxc p0 ops ->
  let pf := cfinal maxc p0 ops in
  (exists consumed : list N, raw_bytes p0 ++ cfed ops = consumed ++ raw_bytes pf) /\
  (is_record_boundary pf = true -> into_input pf = Some (raw_bytes pf)) /\
  (is_record_boundary pf = true ->
   output_buffer pf = [] ->
   exists rp' : parser,
     into_request_parser pf = ConvOk rp' /\
     held rp' = raw_bytes pf /\ cap rp' = len (buffer p0) /\ st rp' = Header) /\
  (is_record_boundary pf = false -> into_input pf = None /\ into_request_parser pf = ConvInterrupted).
Proof. exact C05_stream. Qed.

(* request parser -> stream parser: the leftover becomes the raw input, nothing else *)
Theorem C05_to_stream_parser :
  forall (rp : parser) (r : req),
  parser_ok rp ->
  st rp = Done r ->
  exists sp0 : sp,
    into_stream_parser rp = inl sp0 /\
    sp_inv sp0 /\
    sreq sp0 = r /\
    stream sp0 = next_input_stream (r_role r) None /\
    len (buffer sp0) = cap rp /\
    stream_buffer sp0 = [] /\
    output_buffer sp0 = [] /\
    raw_bytes sp0 = held rp /\
    payload_rem sp0 = 0 /\
    padding_rem sp0 = 0 /\
    abs sp0 =
    {|
      a_B := cap rp;
      a_space := cap rp - len (held rp);
      a_parsed := [];
      a_raw := held rp;
      a_out := [];
      a_req := r;
      a_stream := next_input_stream (r_role r) None;
      a_prem := 0;
      a_pad := 0;
      a_st := SSkip
    |}.
Proof. exact into_stream_parser_inv. Qed.

