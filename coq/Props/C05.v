(* Props/C05.v — No input byte is lost, duplicated or reordered across parser hand-offs.
   Only statements.  Request-parser hand-offs here; stream-parser hand-offs and the k-request chain
   are added as the stream-parser proofs complete. *)
From FV Require Import Base.Bytes Gen.Generated Codec.Varint Codec.NV Codec.Header Codec.Bodies Codec.Vars Parser.ReqModel Parser.ReqParamsSpec Parser.ReqWire Parser.ReqTargets Parser.ReqFinal Parser.StreamModel Parser.AbsStream Parser.StreamSpec Parser.StreamRefine Parser.StreamInv Parser.StreamFinal Parser.ChainTargets Parser.ChainStream Parser.ChainProofs Parser.Chain.

(* after any schedule over any bytes: what was fed = consumed ++ what the parser still holds, and
   the not-yet-fed bytes follow: nothing lost, duplicated or reordered *)
Theorem C05_leftover_req : forall (norm : bytes -> bytes) (maxc : N) B wire sched,
  B < SIZE_LIMIT - 8 -> bytes_ok wire -> len wire < SIZE_LIMIT ->
  exists p d u o, run_schedule norm maxc (new_parser B) wire sched = SOk p d u o /\ parser_ok p /\
                  (d = false -> u = []) /\ (d = true <-> is_final (st p) = true) /\
                  (exists c, wire = c ++ held p ++ u).
Proof. exact F_sched_total. Qed.

(* into_request hands back exactly the held bytes; into_stream_parser hands exactly those bytes
   over as the stream parser's unparsed input (by definition of the models, stated for the record) *)
Theorem C05_into_request_leftover : forall p r, st p = Done r -> into_request p = inl (r, held p).
Proof. intros p r H. unfold into_request. rewrite H. reflexivity. Qed.

Theorem C05_into_stream_parser_leftover : forall p r, st p = Done r -> len (held p) <= cap p ->
  exists sp, into_stream_parser p = inl sp /\ raw_bytes sp = held p /\ stream_buffer sp = [] /\ sreq sp = r.
Proof.
  intros p r H Hc. unfold into_stream_parser. rewrite H. eexists. split; [reflexivity|].
  unfold raw_bytes, stream_buffer, slice. cbn [raw_start free_start buffer parsed_start gap_start sreq].
  repeat split.
  rewrite BytesLemmas.drop_0. replace (len (held p) - 0) with (len (held p)) by lia.
  apply BytesLemmas.take_len_app.
Qed.

(* on a well-formed preamble the leftover ++ unfed is exactly the bytes after the preamble,
   for every look-ahead the schedule produced (C01_exact, third conjunct) *)
Theorem C05_leftover_exact : forall (norm : bytes -> bytes) (maxc : N) B w pairs trailing sched,
  B < SIZE_LIMIT - 8 ->
  preamble_ok w -> Forall pair_ok pairs -> nv_write_all pairs = Some (preamble_payload w) ->
  Forall (pair_fits (aligned_bufsize B)) pairs -> preamble_fits (aligned_bufsize B) w ->
  bytes_ok trailing -> len (enc_rcds (preamble_rcds w) ++ trailing) < SIZE_LIMIT ->
  exists p unfed o, run_schedule norm maxc (new_parser B) (enc_rcds (preamble_rcds w) ++ trailing) sched = SOk p true unfed o /\
                    held p ++ unfed = trailing.
Proof.
  intros norm maxc B w pairs trailing sched H1 H2 H3 H4 H5 H6 H7 H8.
  destruct (F_preamble_exact norm maxc B w pairs trailing sched H1 H2 H3 H4 H5 H6 H7 H8) as [p [u [E [_ L]]]].
  exists p, u, (preamble_replies maxc w). split; assumption.
Qed.

(* ==== pinned from the proof files (tools/write_props.py) ==== *)

(* ---- stream parser and the hand-off back ----  over every legal schedule the unparsed input is exactly the
   unread suffix of (leftover ++ fed); at a record boundary with the output taken, into_request_parser succeeds
   and the new request parser holds exactly those bytes (capacity unchanged, state Header); into_input returns
   them; off a boundary both refuse *)
Theorem C05_stream_handoff :
  forall (maxc : N) (p0 : sp) (ops : list cop),
  sp_inv p0 ->
  csched_legal maxc p0 ops ->
  let pf := cfinal maxc p0 ops in
  (exists consumed : list N, raw_bytes p0 ++ cfed ops = consumed ++ raw_bytes pf) /\
  (is_record_boundary pf = true -> into_input pf = Some (raw_bytes pf)) /\
  (is_record_boundary pf = true ->
   output_buffer pf = [] ->
   exists rp' : parser,
     into_request_parser pf = ConvOk rp' /\
     held rp' = raw_bytes pf /\ cap rp' = len (buffer p0) /\ st rp' = Header) /\
  (is_record_boundary pf = false -> into_input pf = None /\ into_request_parser pf = ConvInterrupted).
Proof. exact C05_stream. Qed.

(* request parser -> stream parser: the leftover becomes the raw input, nothing else *)
Theorem C05_to_stream_parser :
  forall (rp : parser) (r : req),
  parser_ok rp ->
  st rp = Done r ->
  exists sp0 : sp,
    into_stream_parser rp = inl sp0 /\
    sp_inv sp0 /\
    sreq sp0 = r /\
    stream sp0 = next_input_stream (r_role r) None /\
    len (buffer sp0) = cap rp /\
    stream_buffer sp0 = [] /\
    output_buffer sp0 = [] /\
    raw_bytes sp0 = held rp /\
    payload_rem sp0 = 0 /\
    padding_rem sp0 = 0 /\
    abs sp0 =
    {|
      a_B := cap rp;
      a_space := cap rp - len (held rp);
      a_parsed := [];
      a_raw := held rp;
      a_out := [];
      a_req := r;
      a_stream := next_input_stream (r_role r) None;
      a_prem := 0;
      a_pad := 0;
      a_st := SSkip
    |}.
Proof. exact into_stream_parser_inv. Qed.

(* ---- the k-request chain ('Consequently ...') ----  the stream phase of ONE request under every legal caller
   behaviour (parse calls with any chunking and destination, consume_stream, compress, consume_output, any
   number of selections of later streams): per stream the bytes handed out are a prefix of that stream's
   content in the request's own records, and the parser never reads past the request's records: at every record
   boundary the uninterpreted bytes are a suffix of the record list followed by whatever the client sent next *)
Theorem C05_stream_phase :
  forall (maxc : N) (rp : parser) (r : req) (sp0 : sp) (rs : list rcd) (t : list N) 
    (xs : list xop) (pf : sp) (ds : list (option N * bytes)) (u : list N),
  parser_ok rp ->
  st rp = Done r ->
  into_stream_parser rp = inl sp0 ->
  Forall rcd_ok rs ->
  closes_streams (r_role r) (r_id r) rs ->
  (next_input_stream (r_role r) None = None -> existsb is_parse xs = false) ->
  held rp ++ xfed xs ++ u = enc_rcds rs ++ t ->
  xlegal maxc sp0 xs ->
  xrun maxc sp0 xs = Some (pf, ds) ->
  sp_inv pf /\
  sreq pf = r /\
  len (buffer pf) = cap rp /\
  (forall sg : N,
   In sg (role_input_streams (r_role r)) ->
   exists more : list N, content_rcds (r_role r) (r_id r) (Some sg) rs = delivered (Some sg) ds ++ more) /\
  (is_record_boundary pf = true ->
   exists done todo : list rcd, rs = done ++ todo /\ raw_bytes pf ++ u = enc_rcds todo ++ t).
Proof. exact stream_phase. Qed.

(* THE CHAIN: k requests back to back (C01's preamble family, records closing each request's streams), every
   read schedule of every request parser, every legal stream-phase behaviour (reading nothing, part or all of
   each stream), any look-ahead at every hand-off: all k stages complete, the i-th request is exactly the i-th
   transmitted one, stage i hands out only prefixes of request i's streams, and what is left at the end is a
   suffix of the last request's records plus the trailing bytes. chain_run / chain_legal / creq_ok:
   Parser/ChainTargets.v *)
Theorem C05_chain :
  forall (norm : bytes -> bytes) (maxc B : N) (cs : list creq) (gs : list stage) (trailing : bytes),
  B < SIZE_LIMIT - 8 ->
  Forall (creq_ok (aligned_bufsize B)) cs ->
  length gs = length cs ->
  bytes_ok trailing ->
  len (flat_map creq_wire cs ++ trailing) < SIZE_LIMIT ->
  chain_legal norm maxc (new_parser B) (flat_map creq_wire cs ++ trailing) gs ->
  exists (res : list (req * list (option N * bytes))) (pe : parser) (ue : bytes),
    chain_run norm maxc (new_parser B) (flat_map creq_wire cs ++ trailing) gs = Some (res, pe, ue) /\
    map fst res = map (expected norm) cs /\
    Forall2
      (fun (c : creq) (r : req * list (option N * bytes)) =>
       forall sg : N,
       In sg (role_input_streams (w_role (c_pre c))) ->
       exists more : list N,
         content_rcds (w_role (c_pre c)) (w_id (c_pre c)) (Some sg) (c_rest c) =
         delivered (Some sg) (snd r) ++ more) cs res /\
    (cs <> [] ->
     exists done todo : list rcd,
       c_rest
         (last cs
            {|
              c_pre :=
                {|
                  w_idle := [];
                  w_id := 0;
                  w_role := 0;
                  w_flags := 0;
                  w_beginpad := [];
                  w_pieces := [];
                  w_endjunk := [];
                  w_endpad := []
                |};
              c_pairs := [];
              c_rest := []
            |}) = done ++ todo /\ held pe ++ ue = enc_rcds todo ++ trailing) /\
    st pe = Header /\ cap pe = aligned_bufsize B.
Proof. exact chain. Qed.

(* ... and each request alone on a fresh connection yields the same request: 'the same k environments as k
   separate connections' *)
Theorem C05_chain_separately :
  forall (norm : bytes -> bytes) (maxc B : N) (c : creq) (sched : list N),
  B < SIZE_LIMIT - 8 ->
  creq_ok (aligned_bufsize B) c ->
  len (creq_wire c) < SIZE_LIMIT ->
  exists (p : parser) (u o : bytes),
    run_schedule norm maxc (new_parser B) (creq_wire c) sched = SOk p true u o /\
    st p = Done (expected norm c).
Proof. exact chain_separately. Qed.

(* non-vacuity of C05_chain: two pipelined requests (a Responder whose Stdin is read completely, a Filter whose Stdin is read in part
   before Data is selected), B = 256, the whole connection in the buffer at the first hand-off: every hypothesis holds and the run
   yields both requests *)
Example C05_chain_example :
  Forall (creq_ok (aligned_bufsize 256)) [ch_c1; ch_c2] /\
  chain_legal ch_norm 10 (new_parser 256) ch_wire [ch_g1; ch_g2].
Proof. destruct chain_nonvacuous as (_ & H1 & _ & _ & _ & H2). split; [exact H1|exact H2]. Qed.

(* the caller obligation "do not parse during the stream phase of a role without input streams" is needed: DESIGN.md, observation O4 *)
Example C05_authorizer_overread :
  o4_left [] = Some (creq_wire o4_resp ++ [9; 9; 9]) /\
  o4_left [XC (CParse [] None); XC (CConsumeOutput 100)] = Some [9; 9; 9].
Proof. exact authorizer_overread_swallows_successor. Qed.
