(* Props/C07.v — Per request: one handler call, one correct EndRequest, correct connection reuse.
   Only statements.  Model: Async/Conn.v.  Proved: the epilogue clause and the reuse clause (Request::close).  The one-call clause over the
   whole loop is decided by the correspondence check + oracle (it is the clause that exposed and now guards
   against finding F3) until its proof completes. *)
From FV Require Import Base.Bytes Gen.Generated Codec.Header Codec.Bodies Parser.ReqModel Parser.StreamModel Async.Conn Async.ConnWrites Async.ConnLoop Codec.Varint Codec.NV Codec.Vars Parser.ReqWire Parser.ReqTargets Async.ConnTotal Async.ConnReads Async.LoopTargets Async.LoopProofs Async.PeerTargets4 Async.PeerProofs4 Async.LogTargets Async.LogProofs Parser.AbsStream Parser.StreamSpec Parser.StreamFinal Parser.EnvCanon Async.ReadsWTargets Async.PeerTargets Async.PeerTargets2 Async.PeerTargets3 Async.BodyTargets Async.BodyReadsTargets Async.BodyReadsProofs Async.FrameTargets Async.EpilogueTargets Async.EpilogueProofs.

(* Request::close, whenever it ends without an I/O error (reuse, or ConnectionReset because KeepConn was
   not set): after skipping to a record boundary WITHOUT writing anything, it writes exactly the pending
   management replies, then one empty Stdout and one empty Stderr record (when the request is writeable),
   then exactly one EndRequest carrying the protocol/application status of the exit status and the
   request's id — for every way the transport splits or delays those writes *)
Theorem C07_epilogue : forall maxc r1 disc code w1 x w',
  close_tail maxc r1 disc code w1 = Ok x w' ->
  x = inr EK_Reset \/ (exists rp, x = inl rp) ->
  exists p2 r3 w2 ast ps,
    set_stream (rsp r1) None = SetOk p2 /\
    record_boundary maxc (mkR p2 (rwriteable r1) (rlock r1) (raborted r1)) w1 = Ok (None, r3) w2 /\
    wlog w2 = wlog w1 /\
    exit_to_end disc code = Some (ast, ps) /\
    (let id := r_id (sreq (rsp r3)) in
     wlog w' = wlog w2 ++ output_buffer (rsp r3) ++
       (if rwriteable r1
        then hdr_encode RT_Stdout id 0 0 ++ hdr_encode RT_Stderr id 0 0 ++ end_record ast ps id
        else end_record ast ps id)).
Proof. exact close_tail_log_shape. Qed.

(* the connection serves the next request IF AND ONLY IF the request carried KeepConn and no I/O error
   occurred: once the record boundary is reached (reading, never writing), close returns a request parser
   exactly when KeepConn is set and replies ++ epilogue were written completely; without KeepConn it ends
   the connection (ConnectionReset) after the complete epilogue; a failed or zero-length write leaves a
   proper prefix of replies ++ epilogue and ends the connection with that error; nothing else can happen *)
Theorem C07_reuse : forall maxc r1 disc code w1 x w' p2 r3 w2 ep,
  close_tail maxc r1 disc code w1 = Ok x w' ->
  set_stream (rsp r1) None = SetOk p2 ->
  record_boundary maxc (mkR p2 (rwriteable r1) (rlock r1) (raborted r1)) w1 = Ok (None, r3) w2 ->
  epilogue (r_id (sreq (rsp r3))) disc code (if rwriteable r1 then ROLE_OUTPUT_STREAMS else []) = Some ep ->
  let total := output_buffer (rsp r3) ++ ep in
  let keep := N.land (r_flags (sreq (rsp r3))) FLAG_KeepConn = FLAG_KeepConn in
  match x with
  | inl rp => wlog w' = wlog w1 ++ total /\ keep /\ into_request_parser (close_p4 r3) = ConvOk rp
  | inr k =>
      (wlog w' = wlog w1 ++ total /\ k = EK_Reset /\ ~ keep) \/
      ((k = EK_WriteZero \/ k = EK_Transport \/ k = EK_Aborted) /\ ~ no_fault (wscript w2) /\
       exists b1 b2, total = b1 ++ b2 /\ b2 <> [] /\ wlog w' = wlog w1 ++ b1)
  end.
Proof. exact close_reuse_iff. Qed.

(* ... and every way close can end is one of: a read error while skipping to the boundary (nothing written),
   the cases above, or (never, by C12 totality) a halt of the model *)
Theorem C07_close_cases : forall maxc r1 disc code w1,
  close_tail_post maxc r1 disc code w1 (close_tail maxc r1 disc code w1).
Proof. exact close_tail_always. Qed.

(* ==== pinned from the proof files (tools/write_props.py) ==== *)

(* 'exactly that request': Token::parse_request IS a read schedule of the request parser whose chunks are the
   transport reads — whatever the transport does (any read sizes, Pending, any write pattern) *)
Theorem C07_parse_request_is_a_schedule :
  forall (norm : bytes -> bytes) (maxc : N) (fuel : nat) (p : parser) (new : bytes) 
    (w : world) (s0 : sp) (w' : world),
  parser_ok p ->
  bytes_ok new ->
  len new <= input_space p ->
  world_ok w ->
  parse_request norm maxc fuel p new w = Ok (inl s0) w' ->
  exists (taken sched : list N) (p' : parser) (out : bytes),
    remaining w = taken ++ remaining w' /\
    (forall future : bytes,
     bytes_ok future ->
     len (held p ++ new ++ taken ++ future) < SIZE_LIMIT ->
     run_schedule norm maxc p (new ++ taken ++ future) (len new :: sched) = SOk p' true future out) /\
    into_stream_parser p' = inl s0 /\ wlog w' = wlog w ++ out.
Proof. exact parse_request_sched. Qed.

(* a reused connection's parser (leftover L of the previous request in its buffer) behaves exactly like a fresh
   parser fed L first *)
Theorem C07_leftover_as_fed :
  forall (norm : bytes -> bytes) (maxc B : N) (L wire : bytes) (sched : list N) 
    (p : parser) (d : bool) (u o : bytes),
  B < SIZE_LIMIT - 8 ->
  bytes_ok L ->
  len L <= aligned_bufsize B ->
  bytes_ok wire ->
  len (L ++ wire) < SIZE_LIMIT ->
  run_schedule norm maxc (new_parser B) (L ++ wire) (len L :: sched) = SOk p d u o ->
  run_schedule norm maxc {| cap := aligned_bufsize B; held := L; st := Header |} wire (0 :: sched) =
  SOk p d u o.
Proof. exact leftover_as_fed. Qed.

(* MAIN: if the client's stream (leftover of the previous request ++ everything still to be delivered) begins
   with a well-formed preamble (as in C01: any junk, cuts, padding; pairs within the documented bound) and
   parse_request hands over to a handler, the request the handler sees has exactly the transmitted id, role,
   flags and environment; exactly the replies owed for the preamble's management records have been written; and
   the stream parser starts with exactly the bytes that followed the preamble — for every transport behaviour *)
Theorem C07_handler_sees_exactly_the_request :
  forall (norm : bytes -> bytes) (maxc : N) (fuel : nat) (B : N) (L : bytes) (w : world) 
    (pw : preamble) (pairs : list (bytes * bytes)) (trailing : bytes) (s0 : sp) 
    (w' : world),
  B < SIZE_LIMIT - 8 ->
  bytes_ok L ->
  len L <= aligned_bufsize B ->
  world_ok w ->
  preamble_ok pw ->
  Forall pair_ok pairs ->
  nv_write_all pairs = Some (preamble_payload pw) ->
  Forall (pair_fits (aligned_bufsize B)) pairs ->
  preamble_fits (aligned_bufsize B) pw ->
  bytes_ok trailing ->
  len (enc_rcds (preamble_rcds pw) ++ trailing) < SIZE_LIMIT ->
  L ++ remaining w = enc_rcds (preamble_rcds pw) ++ trailing ->
  parse_request norm maxc fuel {| cap := aligned_bufsize B; held := L; st := Header |} [] w =
  Ok (inl s0) w' ->
  sreq s0 = {| r_id := w_id pw; r_role := w_role pw; r_flags := w_flags pw; r_env := env_log norm pairs |} /\
  wlog w' = wlog w ++ preamble_replies maxc pw /\
  raw_bytes s0 ++ remaining w' = trailing /\
  stream s0 = next_input_stream (w_role pw) None /\ output_buffer s0 = [] /\ stream_buffer s0 = [].
Proof. exact handler_sees_request. Qed.

(* 'exactly one handler invocation': one iteration of Token::run — while no shutdown was requested it parses
   ONE request, runs the handler ONCE on it, closes it ONCE when the handler returned a status (a handler Err
   ends the connection without close unless it is the client's abort), and continues only with the parser a
   successful close handed back *)
Theorem C07_one_handler_call_per_request :
  forall (norm : bytes -> bytes) (maxc : N) (fuel : nat) (p : parser) (scripts : list (list N))
    (served : nat) (w : world),
  stopped w = false ->
  run_loop norm maxc (S fuel) p scripts served w =
  match parse_request norm maxc (io_fuel w 0) p [] w with
  | Ok (inl s0) w' =>
      let rq := sreq s0 in
      let r0 :=
        {|
          rsp := s0;
          rwriteable := len (role_input_streams (r_role rq)) <=? 1;
          rlock := false;
          raborted := false
        |} in
      let env := canon_env (r_env rq) in
      let w1 :=
        fold_left (fun (w0 : world) (p0 : list N * list N) => w_ev (w_ev w0 (fst p0)) (snd p0)) env
          (w_ev (w_ev w' [100; epoch w'])
             [r_role rq; r_flags rq; len env; stream_code (stream s0); if rwriteable r0 then 1 else 0]) in
      let script := nth served scripts (last scripts []) in
      match run_handler maxc (length script + 2) script r0 w1 with
      | Ok (inl (d, c), r1) w2 =>
          match do_close maxc r1 d c w2 with
          | Ok (inl rp) w3 => run_loop norm maxc fuel rp scripts (S served) w3
          | Ok (inr _) w3 => (ORet, w3)
          | Halt o w3 => (o, w3)
          end
      | Ok (inr k, r1) w2 =>
          if (k =? EK_Aborted) && raborted r1
          then
           match do_close maxc r1 EXIT_Complete EXIT_ABORT_CODE w2 with
           | Ok (inl rp) w3 => run_loop norm maxc fuel rp scripts (S served) w3
           | Ok (inr _) w3 => (ORet, w3)
           | Halt o w3 => (o, w3)
           end
          else (ORet, w2)
      | Halt o w2 => (o, w2)
      end
  | Ok (inr _) w' => (ORet, w')
  | Halt o w' => (o, w')
  end.
Proof. exact run_loop_iteration. Qed.

(* the trace of Token::run: `run_loop_tr` is run_loop with a ghost trace of the requests handed to the handler;
   erasing the trace gives run_loop, same outcome, same world *)
Theorem C07_trace_is_ghost :
  forall (norm : bytes -> bytes) (maxc : N) (fuel : nat) (p : parser) (scripts : list (list N))
    (served : nat) (w : world) (acc : list req),
  fst (run_loop_tr norm maxc fuel p scripts served w acc) = run_loop norm maxc fuel p scripts served w.
Proof. exact run_loop_tr_erase. Qed.

(* MAIN, whole connection: for the one-outstanding client whose requests respect the buffer bound, the requests
   handed to the handler are exactly the requests sent, in order, each once (the trace of Token::run with a
   ghost trace, `run_loop_tr`, which erases to run_loop: C07_trace_is_ghost; a prefix of the sent requests if
   the connection ends early) — on a fault-free transport, for every handler script (abandoned reads included),
   readiness pattern and buffer size *)
Theorem C07_requests_in_order :
  forall (norm : bytes -> bytes) (maxc : N) (scripts : list (list N)) (B : N) 
    (cs : list (N * N * creq)) (pairss : list (list (bytes * bytes))) (w0 : world),
  B < SIZE_LIMIT - 8 ->
  scripts_ok true scripts ->
  segs w0 = enc_client cs ->
  client_segs 0 0 cs ->
  wlog w0 = [] ->
  no_fault (wscript w0) ->
  length pairss = length cs ->
  (forall (i : nat) (c : creq) (ps : list (bytes * bytes)),
   nth_error (map snd cs) i = Some c -> nth_error pairss i = Some ps -> creq_fits B c ps) ->
  len (flat (segs w0)) < SIZE_LIMIT ->
  let tr := snd (run_loop_tr norm maxc (nb w0 + 4) (new_parser B) scripts 0 w0 []) in
  exists m : nat,
    tr =
    firstn m
      (map (fun cp : creq * list (bytes * bytes) => sent_request norm (fst cp) (snd cp))
         (combine (map snd cs) pairss)).
Proof. exact requests_in_order. Qed.

(* the log-keeping loop `run_loop_log` (Async/LogTargets.v) is run_loop with a ghost record per handler
   invocation; erasing it gives run_loop *)
Theorem C07_log_is_ghost :
  forall (norm : bytes -> bytes) (maxc : N) (fuel : nat) (p : parser) (scripts : list (list N))
    (served_n : nat) (w : world) (acc : list served),
  fst (run_loop_log norm maxc fuel p scripts served_n w acc) =
  run_loop norm maxc fuel p scripts served_n w.
Proof. exact run_loop_log_erase. Qed.

(* MAIN, the transport log of a whole connection, for EVERY client, transport (faults included), handler
   scripts and buffer size: the handler invocations, in order, each satisfy entry_ok - the log only grows while
   the handler runs, and when close completed what it appended is some parser replies, then (if the request had
   become writeable) the empty Stdout and Stderr records, then ONE EndRequest with the invocation's status (the
   handler's own, or ABORT for the client's abort) and the id of the request the handler was started with,
   nothing else -, they are chained (an invocation starts after the previous one was closed) and the final log
   extends the last entry *)
Theorem C07_connection_log :
  forall (norm : bytes -> bytes) (maxc : N) (fuel : nat) (p : parser) (scripts : list (list N))
    (w : world),
  parser_ok p ->
  st p = Header ->
  world_ok w ->
  let
  '(_, w', l) := run_loop_log norm maxc fuel p scripts 0 w [] in
   Forall entry_ok l /\ chained (wlog w) l /\ is_prefix (last_log (wlog w) l) (wlog w').
Proof. exact connection_log. Qed.

(* connection REUSE is invisible to the handler (the 'same as on fresh connections' clause, at the async
   layer): what handler invocation i of a connection carrying k requests of the one-outstanding client is
   started with - request, selected stream, nothing delivered - and the content still to come of every input
   stream equal what the single invocation of a FRESH connection carrying only request i is started with and
   can read, whatever the transports, scripts and readiness patterns of the two connections *)
Theorem C07_reuse_is_invisible :
  forall (norm : bytes -> bytes) (maxc : N) (scripts scripts1 : list (list N)) 
    (B : N) (cs : list (N * N * creq)) (pairss : list (list (bytes * bytes))) 
    (w0 w1 : world),
  B < SIZE_LIMIT - 8 ->
  scripts_ok true scripts ->
  scripts_ok true scripts1 ->
  segs w0 = enc_client cs ->
  client_segs 0 0 cs ->
  wlog w0 = [] ->
  no_fault (wscript w0) ->
  length pairss = length cs ->
  (forall (i : nat) (c : creq) (ps : list (bytes * bytes)),
   nth_error (map snd cs) i = Some c -> nth_error pairss i = Some ps -> creq_fits B c ps) ->
  len (flat (segs w0)) < SIZE_LIMIT ->
  forall (i : nat) (c : creq) (ps : list (bytes * bytes)),
  nth_error (map snd cs) i = Some c ->
  nth_error pairss i = Some ps ->
  segs w1 = enc_client (alone c) ->
  wlog w1 = [] ->
  no_fault (wscript w1) ->
  let tr := snd (run_loop_body norm maxc (nb w0 + 4) (new_parser B) scripts 0 w0 []) in
  let tr1 := snd (run_loop_body norm maxc (nb w1 + 4) (new_parser B) scripts1 0 w1 []) in
  forall (rq : req) (a : ast) (u : bytes) (rq1 : req) (a1 : ast) (u1 : bytes),
  nth_error tr i = Some (rq, a, u) ->
  nth_error tr1 0 = Some (rq1, a1, u1) ->
  rq = rq1 /\
  a_stream a = a_stream a1 /\
  a_parsed a = a_parsed a1 /\
  (forall sg : N, In sg (role_input_streams (r_role rq)) -> to_come sg a u = to_come sg a1 u1).
Proof. exact reuse_is_invisible. Qed.

(* the central clause read off the DECODED transport log: on a transport without write faults, never shut down,
   for every client, buffer size, fuel and handler scripts that await their reads and write to Stdout / Stderr,
   every handler invocation whose close completed owns a stretch of the log that decodes completely into
   records (the log at handler start, what the handler phase appended, what close appended: each whole), in
   which EXACTLY ONE record is an EndRequest with the request's id - the LAST one, carrying the invocation's
   status (the handler's own, or ABORT for the client's abort), directly preceded (when the request had become
   writeable) by the empty Stdout and Stderr records of that id; everything before it is handler output and
   management replies *)
Theorem C07_epilogue_records :
  forall (norm : bytes -> bytes) (maxc : N) (fuel : nat) (B : N) (scripts : list (list N)) (w0 : world),
  B < SIZE_LIMIT - 8 ->
  world_ok w0 ->
  wlog w0 = [] ->
  no_fault (wscript w0) ->
  stop_at w0 = 0 ->
  stopped w0 = false ->
  scripts_ok false scripts ->
  Forall writes_std scripts ->
  Forall no_abandoned_read scripts ->
  let
  '(_, _, l) := run_loop_log norm maxc fuel (new_parser B) scripts 0 w0 [] in
   Forall
     (fun s : served =>
      match sv_closed s with
      | Some L2 =>
          let id := r_id (sv_req s) in
          exists (H C : list N) (app0 ps : N),
            sv_ret s = sv_start s ++ H /\
            L2 = sv_ret s ++ C /\
            whole (sv_start s) /\
            whole H /\
            whole C /\
            Forall (fun r : seg => ~ is_end_of id r) (decode H) /\
            answered_with s app0 ps /\
            (exists replies : list seg,
               Forall (fun r : seg => ~ is_end_of id r) replies /\
               decode C =
               replies ++
               (if sv_gate s then [(RT_Stdout, id, []); (RT_Stderr, id, [])] else []) ++
               [(RT_EndRequest, id, end_encode app0 ps)])
      | None => True
      end) l.
Proof. exact epilogue_records. Qed.

(* non-vacuity: the run of Async/PeerProofs2.ex2 - one closed invocation whose handler phase decodes into a
   GetValuesResult and a Stdout record and whose close decodes into empty Stdout, empty Stderr, EndRequest *)
Theorem C07_epilogue_records_example :
  let
  '(o, _, l) := exl_run in
   o = ORet /\
   match l with
   | [] => False
   | [s] =>
       let H := exl_reply ++ stream_records RT_Stdout 1 [104; 105] in
       let C :=
         hdr_encode RT_Stdout 1 0 0 ++
         hdr_encode RT_Stderr 1 0 0 ++ end_record EXIT_SUCCESS_CODE PS_RequestComplete 1 in
       r_id (sv_req s) = 1 /\
       sv_start s = [] /\
       sv_ret s = sv_start s ++ H /\
       sv_closed s = Some (sv_ret s ++ C) /\
       sv_gate s = true /\
       decode H = [(RT_GetValuesResult, 0, take 18 (drop 8 exl_reply)); (RT_Stdout, 1, [104; 105])] /\
       decode C =
       [(RT_Stdout, 1, []); (RT_Stderr, 1, []);
        (RT_EndRequest, 1, end_encode EXIT_SUCCESS_CODE PS_RequestComplete)]
   | s :: _ :: _ => False
   end.
Proof. exact epilogue_records_ex. Qed.

(* non-vacuity of C07_handler_sees_exactly_the_request: a concrete connection (B = 160, a GetValues junk record inside
   the preamble, leftover = 5 bytes, two client segments, Pending reads and writes) satisfies every hypothesis *)
Example C07_handler_sees_example : forall s0 w', lp_run = Ok (inl s0) w' ->
  sreq s0 = mkReq 9 ROLE_Responder 1 lp_pairs /\ wlog w' = preamble_replies 5 lp_pw /\ raw_bytes s0 ++ remaining w' = lp_trailing.
Proof. exact handler_sees_request_instance. Qed.
