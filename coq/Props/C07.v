(* Props/C07.v — Per request: one handler call, one correct EndRequest, correct connection reuse.
   Only statements.  Model: Async/Conn.v.  Proved: the epilogue clause and the reuse clause (Request::close).  The one-call clause over the
   whole loop is decided by the correspondence check + oracle (it is the clause that exposed and now guards
   against finding F3) until its proof completes. *)
From FV Require Import Base.Bytes Gen.Generated Codec.Header Codec.Bodies Parser.ReqModel Parser.StreamModel Async.Conn Async.ConnWrites Async.ConnLoop.

(* Request::close, whenever it ends without an I/O error (reuse, or ConnectionReset because KeepConn was
   not set): after skipping to a record boundary WITHOUT writing anything, it writes exactly the pending
   management replies, then one empty Stdout and one empty Stderr record (when the request is writeable),
   then exactly one EndRequest carrying the protocol/application status of the exit status and the
   request's id — for every way the transport splits or delays those writes *)
Theorem C07_epilogue : forall maxc r1 disc code w1 x w',
  close_tail maxc r1 disc code w1 = Ok x w' ->
  x = inr EK_Reset \/ (exists rp, x = inl rp) ->
  exists p2 r3 w2 ast ps,
    set_stream (rsp r1) None = SetOk p2 /\
    record_boundary maxc (mkR p2 (rwriteable r1) (rlock r1) (raborted r1)) w1 = Ok (None, r3) w2 /\
    wlog w2 = wlog w1 /\
    exit_to_end disc code = Some (ast, ps) /\
    (let id := r_id (sreq (rsp r3)) in
     wlog w' = wlog w2 ++ output_buffer (rsp r3) ++
       (if rwriteable r1
        then hdr_encode RT_Stdout id 0 0 ++ hdr_encode RT_Stderr id 0 0 ++ end_record ast ps id
        else end_record ast ps id)).
Proof. exact close_tail_log_shape. Qed.

(* the connection serves the next request IF AND ONLY IF the request carried KeepConn and no I/O error
   occurred: once the record boundary is reached (reading, never writing), close returns a request parser
   exactly when KeepConn is set and replies ++ epilogue were written completely; without KeepConn it ends
   the connection (ConnectionReset) after the complete epilogue; a failed or zero-length write leaves a
   proper prefix of replies ++ epilogue and ends the connection with that error; nothing else can happen *)
Theorem C07_reuse : forall maxc r1 disc code w1 x w' p2 r3 w2 ep,
  close_tail maxc r1 disc code w1 = Ok x w' ->
  set_stream (rsp r1) None = SetOk p2 ->
  record_boundary maxc (mkR p2 (rwriteable r1) (rlock r1) (raborted r1)) w1 = Ok (None, r3) w2 ->
  epilogue (r_id (sreq (rsp r3))) disc code (if rwriteable r1 then ROLE_OUTPUT_STREAMS else []) = Some ep ->
  let total := output_buffer (rsp r3) ++ ep in
  let keep := N.land (r_flags (sreq (rsp r3))) FLAG_KeepConn = FLAG_KeepConn in
  match x with
  | inl rp => wlog w' = wlog w1 ++ total /\ keep /\ into_request_parser (close_p4 r3) = ConvOk rp
  | inr k =>
      (wlog w' = wlog w1 ++ total /\ k = EK_Reset /\ ~ keep) \/
      ((k = EK_WriteZero \/ k = EK_Transport \/ k = EK_Aborted) /\ ~ no_fault (wscript w2) /\
       exists b1 b2, total = b1 ++ b2 /\ b2 <> [] /\ wlog w' = wlog w1 ++ b1)
  end.
Proof. exact close_reuse_iff. Qed.

(* ... and every way close can end is one of: a read error while skipping to the boundary (nothing written),
   the cases above, or (never, by C12 totality) a halt of the model *)
Theorem C07_close_cases : forall maxc r1 disc code w1,
  close_tail_post maxc r1 disc code w1 (close_tail maxc r1 disc code w1).
Proof. exact close_tail_always. Qed.
