(* Props/C07.v — Per request: one handler call, one correct EndRequest, correct connection reuse.
   Only statements.  Model: Async/Conn.v.  Proved so far: the epilogue clause.  The one-call and reuse
   clauses are decided by the correspondence check + oracle (they are the clauses that exposed and now
   guard against finding F3); their proofs are added as they complete. *)
From FV Require Import Base.Bytes Gen.Generated Codec.Header Codec.Bodies Parser.ReqModel Parser.StreamModel Async.Conn Async.ConnWrites.

(* Request::close, whenever it ends without an I/O error (reuse, or ConnectionReset because KeepConn was
   not set): after skipping to a record boundary WITHOUT writing anything, it writes exactly the pending
   management replies, then one empty Stdout and one empty Stderr record (when the request is writeable),
   then exactly one EndRequest carrying the protocol/application status of the exit status and the
   request's id — for every way the transport splits or delays those writes *)
Theorem C07_epilogue : forall maxc r1 disc code w1 x w',
  close_tail maxc r1 disc code w1 = Ok x w' ->
  x = inr EK_Reset \/ (exists rp, x = inl rp) ->
  exists p2 r3 w2 ast ps,
    set_stream (rsp r1) None = SetOk p2 /\
    record_boundary maxc (mkR p2 (rwriteable r1) (rlock r1)) w1 = Ok (None, r3) w2 /\
    wlog w2 = wlog w1 /\
    exit_to_end disc code = Some (ast, ps) /\
    (let id := r_id (sreq (rsp r3)) in
     wlog w' = wlog w2 ++ output_buffer (rsp r3) ++
       (if rwriteable r1
        then hdr_encode RT_Stdout id 0 0 ++ hdr_encode RT_Stderr id 0 0 ++ end_record ast ps id
        else end_record ast ps id)).
Proof. exact close_tail_log_shape. Qed.
