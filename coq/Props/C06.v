(* Props/C06.v — Documented buffer bound suffices; lack of space is reported, never waited on.
   Only statements.  Models: Parser/ReqModel.v (aligned_bufsize = Config::aligned_bufsize, lib.rs;
   parse = request::Parser::parse). *)
From FV Require Import Base.Bytes Gen.Generated Parser.ReqModel Parser.BufsizeProofs.

(* the effective buffer is never smaller than the configured size nor than 24, is a multiple of 8,
   and is the least such value (so it is < max 25 (b+8)) — for every configurable size *)
Theorem C06_bufsize : forall b, b + 7 <= USIZE_MAX64 ->
  b <= aligned_bufsize b /\ 24 <= aligned_bufsize b /\ aligned_bufsize b mod 8 = 0 /\
  aligned_bufsize b < N.max 25 (b + 8) /\
  (forall c, b <= c -> 24 <= c -> c mod 8 = 0 -> aligned_bufsize b <= c).
Proof. exact bufsize_spec. Qed.

(* kept visible: beyond usize::MAX - 7 (far outside the property's 0..1 MiB domain) the code
   returns usize::MAX, which is not a multiple of 8 *)
Theorem C06_bufsize_overflow_arm : forall b, USIZE_MAX64 < b + 7 -> b <= USIZE_MAX64 -> aligned_bufsize b = USIZE_MAX64.
Proof. exact bufsize_overflow_arm. Qed.

(* a fresh parser offers the whole effective buffer (>= 24 bytes) *)
Theorem C06_fresh_parser : forall b, input_space (new_parser b) = aligned_bufsize b.
Proof. exact new_parser_space. Qed.

Example C06_example : aligned_bufsize 8192 = 8192 /\ aligned_bufsize 0 = 24 /\ aligned_bufsize 25 = 32 /\ aligned_bufsize 8193 = 8200.
Proof. repeat split; reflexivity. Qed.
