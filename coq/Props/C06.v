(* Props/C06.v — Documented buffer bound suffices; lack of space is reported, never waited on.
   Only statements.  Models: Parser/ReqModel.v (aligned_bufsize = Config::aligned_bufsize, lib.rs;
   parse = request::Parser::parse). *)
From FV Require Import Base.Bytes Gen.Generated Codec.NV Parser.ReqModel Parser.ReqWire Parser.ReqTargets Parser.ReqFinal Parser.BufsizeProofs.

(* the effective buffer is never smaller than the configured size nor than 24, is a multiple of 8,
   and is the least such value (so it is < max 25 (b+8)) — for every configurable size *)
Theorem C06_bufsize : forall b, b + 7 <= USIZE_MAX64 ->
  b <= aligned_bufsize b /\ 24 <= aligned_bufsize b /\ aligned_bufsize b mod 8 = 0 /\
  aligned_bufsize b < N.max 25 (b + 8) /\
  (forall c, b <= c -> 24 <= c -> c mod 8 = 0 -> aligned_bufsize b <= c).
Proof. exact bufsize_spec. Qed.

(* kept visible: beyond usize::MAX - 7 (far outside the property's 0..1 MiB domain) the code
   returns usize::MAX, which is not a multiple of 8 *)
Theorem C06_bufsize_overflow_arm : forall b, USIZE_MAX64 < b + 7 -> b <= USIZE_MAX64 -> aligned_bufsize b = USIZE_MAX64.
Proof. exact bufsize_overflow_arm. Qed.

(* a fresh parser offers the whole effective buffer (>= 24 bytes) *)
Theorem C06_fresh_parser : forall b, input_space (new_parser b) = aligned_bufsize b.
Proof. exact new_parser_space. Qed.

(* the documented bound suffices: a well-formed preamble whose pairs satisfy |name|+|value|+13 <= B
   is parsed to completion (never StuckOnInput) under EVERY segmentation and EVERY read schedule *)
Theorem C06_sufficient : forall (norm : bytes -> bytes) (maxc : N) B w pairs trailing sched,
  B < SIZE_LIMIT - 8 ->
  preamble_ok w -> Forall pair_ok pairs -> nv_write_all pairs = Some (preamble_payload w) ->
  Forall (pair_fits (aligned_bufsize B)) pairs -> preamble_fits (aligned_bufsize B) w ->
  bytes_ok trailing -> len (enc_rcds (preamble_rcds w) ++ trailing) < SIZE_LIMIT ->
  exists p unfed o r, run_schedule norm maxc (new_parser B) (enc_rcds (preamble_rcds w) ++ trailing) sched = SOk p true unfed o /\
                      st p = Done r.
Proof.
  intros norm maxc B w pairs trailing sched H1 H2 H3 H4 H5 H6 H7 H8.
  destruct (F_preamble_exact norm maxc B w pairs trailing sched H1 H2 H3 H4 H5 H6 H7 H8) as [p [u [E [S _]]]].
  exists p, u, (preamble_replies maxc w), (mkReq (w_id w) (w_role w) (w_flags w) (env_log norm pairs)). split; assumption.
Qed.

(* a parser that has not finished always offers a non-empty input buffer ... *)
Theorem C06_reported : forall (norm : bytes -> bytes) (maxc : N) p new p' o,
  parser_ok p -> bytes_ok new -> len new <= input_space p ->
  parse norm maxc p new = POk p' false o -> 0 < input_space p'.
Proof. exact F_parse_reported. Qed.

(* ... and when it cannot, that very call reports done (StuckOnInput, unless it really finished) *)
Theorem C06_stuck_same_call : forall (norm : bytes -> bytes) (maxc : N) p new p' d o,
  parser_ok p -> bytes_ok new -> len new <= input_space p ->
  parse norm maxc p new = POk p' d o -> input_space p' = 0 -> is_final (st p) = false ->
  d = true /\ (st p' = Fatal EStuckOnInput \/ is_final (st p') = true).
Proof. exact F_parse_stuck. Qed.

(* for information: the bound on the encoded pair is tight - a pair whose encoding is B+1 bytes,
   inside one record, does get stuck (B = 24: name 11 + value 12 bytes, 2 length bytes) *)
Example C06_tight_witness :
  exists p u o, run_schedule (fun b => b) 1 (new_parser 24)
     ([1; 1; 0; 1; 0; 8; 0; 0; 0; 1; 0; 0; 0; 0; 0; 0] ++ [1; 4; 0; 1; 0; 25; 0; 0] ++ [11; 12] ++ repeatN 65 11 ++ repeatN 66 12
      ++ [1; 4; 0; 1; 0; 0; 0; 0]) [] = SOk p true u o /\ st p = Fatal EStuckOnInput.
Proof. vm_compute. do 3 eexists. split; reflexivity. Qed.

Example C06_example : aligned_bufsize 8192 = 8192 /\ aligned_bufsize 0 = 24 /\ aligned_bufsize 25 = 32 /\ aligned_bufsize 8193 = 8200.
Proof. repeat split; reflexivity. Qed.
