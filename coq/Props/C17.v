(* Props/C17.v — Record headers, fixed bodies and generated replies encode exactly as specified.
   Only statements.  Models: Codec/Header.v, Bodies.v, Vars.v (src/protocol/{mod,body,fields,vars}.rs). *)
From FV Require Import Base.Bytes Gen.Generated Spec.FcgiSpec Codec.Varint Codec.NV Codec.Header Codec.Bodies
  Codec.Vars Codec.ProtoProofs.

(* the constants regenerated from the source are those of the FastCGI specification *)
Theorem C17_generated_matches_spec :
  VERSION_VALUES = [S_FCGI_VERSION_1] /\
  RTYPE_VALUES = [S_FCGI_BEGIN_REQUEST; S_FCGI_ABORT_REQUEST; S_FCGI_END_REQUEST; S_FCGI_PARAMS; S_FCGI_STDIN;
                  S_FCGI_STDOUT; S_FCGI_STDERR; S_FCGI_DATA; S_FCGI_GET_VALUES; S_FCGI_GET_VALUES_RESULT;
                  S_FCGI_UNKNOWN_TYPE] /\
  (RT_BeginRequest, RT_AbortRequest, RT_EndRequest, RT_Params, RT_Stdin, RT_Stdout, RT_Stderr, RT_Data,
   RT_GetValues, RT_GetValuesResult, RT_Unknown) =
  (S_FCGI_BEGIN_REQUEST, S_FCGI_ABORT_REQUEST, S_FCGI_END_REQUEST, S_FCGI_PARAMS, S_FCGI_STDIN, S_FCGI_STDOUT,
   S_FCGI_STDERR, S_FCGI_DATA, S_FCGI_GET_VALUES, S_FCGI_GET_VALUES_RESULT, S_FCGI_UNKNOWN_TYPE) /\
  ROLE_VALUES = [S_FCGI_RESPONDER; S_FCGI_AUTHORIZER; S_FCGI_FILTER] /\
  (ROLE_Responder, ROLE_Authorizer, ROLE_Filter) = (S_FCGI_RESPONDER, S_FCGI_AUTHORIZER, S_FCGI_FILTER) /\
  PSTATUS_VALUES = [S_FCGI_REQUEST_COMPLETE; S_FCGI_CANT_MPX_CONN; S_FCGI_OVERLOADED; S_FCGI_UNKNOWN_ROLE] /\
  (PS_RequestComplete, PS_CantMpxConn, PS_Overloaded, PS_UnknownRole) =
  (S_FCGI_REQUEST_COMPLETE, S_FCGI_CANT_MPX_CONN, S_FCGI_OVERLOADED, S_FCGI_UNKNOWN_ROLE) /\
  FLAG_KeepConn = S_FCGI_KEEP_CONN /\ FCGI_NULL_REQUEST_ID = S_FCGI_NULL_REQUEST_ID /\
  HEADER_LEN = S_FCGI_HEADER_LEN /\
  map fst PROTOCOL_VARIABLES = [S_FCGI_MAX_CONNS; S_FCGI_MAX_REQS; S_FCGI_MPXS_CONNS] /\
  IS_MANAGEMENT = S_MANAGEMENT /\ ROLE_INPUT_STREAMS = S_ROLE_INPUTS /\ ROLE_OUTPUT_STREAMS = S_OUTPUTS /\
  IS_INPUT_STREAM = [S_FCGI_STDIN; S_FCGI_DATA] /\ IS_OUTPUT_STREAM = S_OUTPUTS.
Proof. exact generated_matches_spec. Qed.

(* every header value survives encoding and decoding unchanged *)
Theorem C17_hdr_roundtrip : forall t id cl pl, known_type t = true -> id < 65536 -> cl < 65536 -> pl < 256 ->
  hdr_decode (hdr_encode t id cl pl) = HOk t id cl pl.
Proof. exact hdr_roundtrip. Qed.

(* decoding rejects exactly the unknown versions (checked first) and unknown record types *)
Theorem C17_hdr_decode_spec : forall b0 b1 b2 b3 b4 b5 b6 b7,
  b2 < 256 -> b3 < 256 -> b4 < 256 -> b5 < 256 ->
  hdr_decode (b8 b0 b1 b2 b3 b4 b5 b6 b7) =
    if negb (b0 =? 1) then HBadVersion b0
    else if negb ((1 <=? b1) && (b1 <=? 11)) then HBadType b1
    else HOk b1 (be16 b2 b3) (be16 b4 b5) b6.
Proof. exact hdr_decode_spec. Qed.

(* every 8-byte string that decodes re-encodes to itself apart from the reserved byte *)
Theorem C17_hdr_decode_encode : forall b0 b1 b2 b3 b4 b5 b6 b7 t id cl pl,
  b2 < 256 -> b3 < 256 -> b4 < 256 -> b5 < 256 ->
  hdr_decode (b8 b0 b1 b2 b3 b4 b5 b6 b7) = HOk t id cl pl ->
  hdr_encode t id cl pl = b8 b0 b1 b2 b3 b4 b5 b6 0 /\ b0 = 1 /\ 1 <= t <= 11.
Proof. exact hdr_decode_encode. Qed.

(* automatic padding: below 8, makes content + padding a multiple of 8, and is the least such *)
Theorem C17_pad_rule : forall n, auto_padding n < 8 /\ (n + auto_padding n) mod 8 = 0 /\
  (forall p, (n + p) mod 8 = 0 -> auto_padding n <= p).
Proof. exact pad_rule. Qed.

(* BeginRequest body: all known roles x all 256 flag bytes retained; unknown roles rejected *)
Theorem C17_begin_roundtrip : forall role flags, known_role role = true -> flags < 256 ->
  begin_decode (begin_encode role flags) = (role, Some (role, flags)).
Proof. exact begin_roundtrip. Qed.

Theorem C17_begin_decode_spec : forall b0 b1 b2 b3 b4 b5 b6 b7,
  begin_decode (b8 b0 b1 b2 b3 b4 b5 b6 b7) =
    (be16 b0 b1, if (1 <=? be16 b0 b1) && (be16 b0 b1 <=? 3) then Some (be16 b0 b1, b2) else None).
Proof. exact begin_decode_spec. Qed.

Theorem C17_begin_decode_encode : forall b0 b1 b2 b3 b4 b5 b6 b7 role flags, b0 < 256 -> b1 < 256 ->
  snd (begin_decode (b8 b0 b1 b2 b3 b4 b5 b6 b7)) = Some (role, flags) ->
  begin_encode role flags = b8 b0 b1 b2 0 0 0 0 0 /\ flags = b2.
Proof. exact begin_decode_encode. Qed.

(* EndRequest body *)
Theorem C17_end_roundtrip : forall ast ps, ast < 4294967296 -> known_status ps = true ->
  end_decode (end_encode ast ps) = Some (ast, ps).
Proof. exact end_roundtrip. Qed.

Theorem C17_end_decode_spec : forall b0 b1 b2 b3 b4 b5 b6 b7,
  end_decode (b8 b0 b1 b2 b3 b4 b5 b6 b7) = if b4 <=? 3 then Some (be32 b0 b1 b2 b3, b4) else None.
Proof. exact end_decode_spec. Qed.

Theorem C17_end_decode_encode : forall b0 b1 b2 b3 b4 b5 b6 b7 ast ps, b0 < 256 -> b1 < 256 -> b2 < 256 -> b3 < 256 ->
  end_decode (b8 b0 b1 b2 b3 b4 b5 b6 b7) = Some (ast, ps) ->
  end_encode ast ps = b8 b0 b1 b2 b3 b4 0 0 0.
Proof. exact end_decode_encode. Qed.

(* UnknownType body *)
Theorem C17_unk_roundtrip : forall t, unk_decode (unk_encode t) = t.
Proof. exact unk_roundtrip. Qed.

Theorem C17_unk_decode_encode : forall b0 b1 b2 b3 b4 b5 b6 b7,
  unk_encode (unk_decode (b8 b0 b1 b2 b3 b4 b5 b6 b7)) = b8 b0 0 0 0 0 0 0 0.
Proof. exact unk_decode_encode. Qed.

(* whole-record encoders: header(type, id, 8, 0) ++ body, 16 bytes, decodable header *)
Theorem C17_record_shapes : forall id, id < 65536 ->
  (forall t, unk_record t id = hdr_encode RT_Unknown id 8 0 ++ unk_encode t /\ len (unk_record t id) = 16) /\
  (forall role flags, begin_record role flags id = hdr_encode RT_BeginRequest id 8 0 ++ begin_encode role flags
                      /\ len (begin_record role flags id) = 16) /\
  (forall ast ps, end_record ast ps id = hdr_encode RT_EndRequest id 8 0 ++ end_encode ast ps
                  /\ len (end_record ast ps id) = 16) /\
  hdr_decode (take 8 (unk_record 0 id)) = HOk RT_Unknown id 8 0 /\
  hdr_decode (take 8 (begin_record 0 0 id)) = HOk RT_BeginRequest id 8 0 /\
  hdr_decode (take 8 (end_record 0 0 id)) = HOk RT_EndRequest id 8 0.
Proof. exact record_shapes. Qed.

(* GetValuesResult: one well-formed management record, id 0, padded per the rule, at most
   RESPONSE_LEN bytes, whose body decodes to exactly the requested variables in declaration order *)
Theorem C17_gvr_wellformed : forall vars maxc, maxc < 18446744073709551616 ->
  let body := response_body vars maxc in
  let plen := auto_padding (len body) in
  write_response vars maxc = hdr_encode RT_GetValuesResult FCGI_NULL_REQUEST_ID (len body) plen ++ body ++ zeros plen /\
  hdr_decode (take 8 (write_response vars maxc)) = HOk RT_GetValuesResult 0 (len body) plen /\
  nv_run body = (resp_pairs vars maxc, []) /\
  len (write_response vars maxc) = 8 + len body + plen /\
  len (write_response vars maxc) <= RESPONSE_LEN /\
  len (write_response vars maxc) mod 8 = 0 /\ plen < 8.
Proof. exact gvr_wellformed. Qed.

Theorem C17_gvr_pairs : forall vars maxc,
  resp_pairs vars maxc =
    (if N.land vars 1 =? 1 then [(S_FCGI_MAX_CONNS, decimal maxc)] else []) ++
    (if N.land vars 2 =? 2 then [(S_FCGI_MAX_REQS, decimal maxc)] else []) ++
    (if N.land vars 4 =? 4 then [(S_FCGI_MPXS_CONNS, [48])] else []).
Proof. exact resp_pairs_spec. Qed.

(* the value is the configured limit in decimal: digits only, no leading zero, reads back as maxc *)
Theorem C17_decimal : forall n, n < 18446744073709551616 ->
  1 <= len (decimal n) <= 20 /\ digits_val (decimal n) = n /\ Forall is_digit (decimal n) /\
  (0 < n -> hd 0 (decimal n) <> 48).
Proof. exact decimal_spec. Qed.

(* exit status -> EndRequest protocol/application status, and the ABRT code *)
Theorem C17_exit_status_map : forall c,
  exit_to_end EXIT_Complete c = Some (c, PS_RequestComplete) /\
  exit_to_end EXIT_Overloaded c = Some (0, PS_Overloaded) /\
  exit_to_end EXIT_UnknownRole c = Some (0, PS_UnknownRole) /\
  EXIT_ABORT_CODE = 1094865492.
Proof. exact exit_status_map. Qed.

(* end-of-request sequence: one empty record per output stream, then the EndRequest, all with the id *)
Theorem C17_epilogue_shape : forall id disc c ast ps, exit_to_end disc c = Some (ast, ps) ->
  epilogue id disc c ROLE_OUTPUT_STREAMS =
    Some (hdr_encode RT_Stdout id 0 0 ++ hdr_encode RT_Stderr id 0 0 ++ end_record ast ps id) /\
  epilogue id disc c [] = Some (end_record ast ps id) /\
  len (hdr_encode RT_Stdout id 0 0 ++ hdr_encode RT_Stderr id 0 0 ++ end_record ast ps id) = EPILOGUE_LEN.
Proof. exact epilogue_shape. Qed.

Example C17_example :
  write_response 5 300 = [1; 10; 0; 0; 0; 37; 3; 0;
     14; 3; 70; 67; 71; 73; 95; 77; 65; 88; 95; 67; 79; 78; 78; 83; 51; 48; 48;
     15; 1; 70; 67; 71; 73; 95; 77; 80; 88; 83; 95; 67; 79; 78; 78; 83; 48; 0; 0; 0]
  /\ hdr_decode [1; 5; 0; 1; 1; 0; 7; 9] = HOk 5 1 256 7 /\ hdr_decode [2; 77; 0; 0; 0; 0; 0; 0] = HBadVersion 2.
Proof. repeat split; reflexivity. Qed.
