(* Props/C08.v — The server never waits for client input while it owes a reply.
   Only statements.  Model: Async/Conn.v (scripted world: gated client segments = a peer that withholds further
   records until it has seen the replies it waits for; PBlock = Pending without a wake-up).  Proofs: Async/ConnTotal.v
   (totality), Async/ConnReads.v (accounting at every suspension point).  R is the reply specification of
   Parser/StreamSpec.v: the replies owed for a byte string by a parser in a given state. *)
From FV Require Import Base.Bytes Gen.Generated Parser.ReqModel Parser.ReqTargets Parser.StreamModel Parser.AbsStream Parser.StreamSpec Parser.StreamRefine Parser.StreamInv Async.Conn Async.ConnWrites Async.ConnTotal Async.ConnReads Async.PeerTargets Async.PeerProofs Async.PeerTargets2 Async.PeerProofs2 Async.PeerTargets3 Async.PeerProofs3.

(* ==== pinned from the proof files (tools/write_props.py) ==== *)

(* layer (i), every transport (write faults included) and every well-formed handler: the task ends by returning
   or suspended without a pending wake-up — never a panic, never a spin.  What it is suspended on is a
   transport read that a gated client does not satisfy or (known findings F5/F6, refuted form:
   C12_terminates_unrestricted_refuted) a StreamWriter op waiting for the request's own output lock *)
Theorem C08_never_panics_or_spins :
  forall (norm : bytes -> bytes) (maxc : N) (scripts : list (list N)) (B : N) (w0 : world),
  world_ok w0 ->
  scripts_ok true scripts ->
  B < SIZE_LIMIT - 8 ->
  exists w : world,
    run_loop norm maxc (nb w0 + 4) (new_parser B) scripts 0 w0 = (ORet, w) \/
    run_loop norm maxc (nb w0 + 4) (new_parser B) scripts 0 w0 = (ODeadlock, w).
Proof. exact run_loop_total. Qed.

(* layer (ii-a): on a transport without write faults, with handlers that await the reads they start (no
   abandoned poll, op 11), Request.lock is free between handler ops, and the only way the task can be suspended
   without a pending wake-up is a transport read that a GATED client does not satisfy: never a panic, a spin,
   or a wait on anything else *)
Theorem C08_only_waits_for_client :
  forall (norm : bytes -> bytes) (maxc : N) (scripts : list (list N)) (B : N) (w0 : world),
  world_ok w0 ->
  scripts_ok true scripts ->
  Forall no_abandoned_read scripts ->
  no_fault (wscript w0) ->
  B < SIZE_LIMIT - 8 ->
  exists w : world,
    run_loop norm maxc (nb w0 + 4) (new_parser B) scripts 0 w0 = (ORet, w) \/
    run_loop norm maxc (nb w0 + 4) (new_parser B) scripts 0 w0 = (ODeadlock, w) /\ ~ ungated w0.
Proof. exact run_loop_waits_fault_free. Qed.

(* inside a handler's read (poll_input): a suspension without wake-up happens only with NOTHING OWED: the
   parser's output buffer is empty, everything it produced is in the transport's log (wlog w' = wlog w ++
   flushed, and flushed ++ what is still owed for the undelivered bytes = what was owed before), nothing is
   owed for the bytes already received (R .. [] = []), no stream data is withheld from the handler, and the
   client's next bytes are gated *)
Theorem C08_poll_input_block :
  forall (maxc : N) (fuel : nat) (dest : option N) (r : rstate) (w : world) (r' : rstate) (w' : world),
  pinv (rsp r) ->
  bytes_ok (remaining w) ->
  (length (wscript w) + length (remaining w) + 2 <= fuel)%nat ->
  poll_input maxc fuel dest r w = (PBlock, r', w') ->
  output_buffer (rsp r') = [] /\
  stream_buffer (rsp r') = [] /\
  gated w' /\
  R maxc (abs (rsp r')) [] = [] /\
  K (abs (rsp r)) (remaining w) = K (abs (rsp r')) (remaining w') /\
  (exists flushed : list N,
     wlog w' = wlog w ++ flushed /\
     a_out (abs (rsp r')) = [] /\
     R maxc (abs (rsp r)) (remaining w) = flushed ++ R maxc (abs (rsp r')) (remaining w')).
Proof. exact poll_input_block. Qed.

(* the awaited form: a deadlock inside poll_fn(poll_input) has exactly that shape *)
Theorem C08_await_input_deadlock :
  forall (maxc : N) (fuel : nat) (dest : option N) (r : rstate) (w w' : world),
  pinv (rsp r) ->
  bytes_ok (remaining w) ->
  await_input maxc fuel dest r w = Halt ODeadlock w' ->
  gated w' /\
  (exists (r' : rstate) (flushed : list N),
     output_buffer (rsp r') = [] /\
     stream_buffer (rsp r') = [] /\
     R maxc (abs (rsp r')) [] = [] /\
     wlog w' = wlog w ++ flushed /\
     R maxc (abs (rsp r)) (remaining w) = flushed ++ R maxc (abs (rsp r')) (remaining w') /\
     K (abs (rsp r)) (remaining w) = K (abs (rsp r')) (remaining w')).
Proof. exact await_input_deadlock. Qed.

(* a parse call that reports neither stream data nor end-of-stream stops only when it is stuck on incomplete
   input (the fact behind 'nothing owed for received bytes') *)
Theorem C08_quiet_call_is_stuck :
  forall (maxc : N) (a : ast) (new : bytes) (dest : option N) (a' : ast) (s : status),
  a_inv a ->
  legal a new dest ->
  dest <> Some 0 ->
  aparse maxc a new dest = AOk a' s ->
  s_end s = false -> s_stream s = 0 -> forall o : bytes, R maxc (set_out a' o) [] = o.
Proof. exact aparse_quiet. Qed.

(* between requests (Token::parse_request): a deadlock happens only in the read, with every reply produced by
   every parse call made so far completely written, and nothing else written *)
Theorem C08_parse_request_deadlock :
  forall (norm : bytes -> bytes) (maxc : N) (fuel : nat) (p : parser) (new : bytes) (w w' : world),
  parse_request norm maxc fuel p new w = Halt ODeadlock w' ->
  gated w' /\ (exists outs : list bytes, pr_chain norm maxc p new outs /\ wlog w' = wlog w ++ concat outs).
Proof. exact parse_request_deadlock. Qed.

(* parse_request reads only after its write_all returned Ok *)
Theorem C08_read_after_flush :
  forall (norm : bytes -> bytes) (maxc : N) (f : nat) (p : parser) (new : bytes) 
    (w : world) (p' : parser) (out : bytes),
  parse norm maxc p new = POk p' false out ->
  match await_write_all (io_fuel w (len out)) true out w with
  | Ok (Some k) w1 => parse_request norm maxc (S f) p new w = Ok (inr k) w1
  | Ok None w1 =>
      wlog w1 = wlog w ++ out /\
      remaining w1 = remaining w /\
      parse_request norm maxc (S f) p new w =
      match await_read (io_fuel w1 0) true (input_space p') w1 with
      | Ok (inl []) w'' => Ok (inr EK_Reset) w''
      | Ok (inl ((_ :: _) as b)) w'' => parse_request norm maxc f p' b w''
      | Ok (inr k) w'' => Ok (inr k) w''
      | Halt o w'' => Halt o w''
      end
  | Halt o w1 => parse_request norm maxc (S f) p new w = Halt o w1 /\ o <> ODeadlock
  end.
Proof. exact parse_request_read_after_flush. Qed.

(* while skipping to a record boundary in close(): a deadlock happens only strictly inside a record the client
   has not finished; nothing was written, all replies are still accounted for (their flush is deferred to
   close, which is why the peer of the property — one that sends whole records — cannot deadlock here) *)
Theorem C08_record_boundary_deadlock :
  forall (maxc : N) (fuel : nat) (new : bytes) (r : rstate) (w w' : world),
  pinv (rsp r) ->
  bytes_ok new ->
  len new <= sinput_space (rsp r) ->
  bytes_ok (remaining w) ->
  boundary_loop maxc fuel new r w = Halt ODeadlock w' ->
  gated w' /\
  wlog w' = wlog w /\
  (exists p' : sp,
     pinv p' /\
     is_record_boundary p' = false /\
     sreq p' = sreq (rsp r) /\ R maxc (abs (rsp r)) (new ++ remaining w) = R maxc (abs p') (remaining w')).
Proof. exact boundary_loop_deadlock. Qed.

(* ---- the 'Hence' part, counted the way the waiting peer counts (complete EndRequest records; complete
   GetValuesResult / UnknownType records in the bytes it received) ----  counting is additive over complete
   records *)
Theorem C08_counts_additive :
  forall a b : bytes, whole a -> whole b -> counts (a ++ b) = cadd (counts a) (counts b).
Proof. exact counts_app. Qed.

(* every reply the stream parser owes is a complete record (for continuations made of bytes; the unrestricted
   form is refuted below: a 'byte' 300 would be echoed) *)
Theorem C08_replies_are_whole_records :
  forall (maxc : N) (a : ast) (u : bytes), a_inv a -> bytes_ok u -> whole (a_out a) -> whole (R maxc a u).
Proof. exact replies_whole_partial. Qed.

(* ... refuted without that restriction *)
Theorem C08_replies_whole_unrestricted_refuted :
  ~ (forall (maxc : N) (a : ast) (u : bytes), a_inv a -> whole (a_out a) -> whole (R maxc a u)).
Proof. exact replies_whole_full_is_false. Qed.

(* every output of a request-parser call is a sequence of complete records *)
Theorem C08_request_parser_output_whole :
  forall (norm : bytes -> bytes) (maxc : N) (p : parser) (new : bytes) (p' : parser) 
    (d : bool) (out : bytes),
  parser_ok p ->
  bytes_ok new -> len new <= input_space p -> parse norm maxc p new = POk p' d out -> whole out.
Proof. exact parse_out_whole. Qed.

(* a handler read that ends up waiting for the client has put into the log EXACTLY the replies the
   specification owes for the bytes received during the read (pending output included), all complete records,
   counted additively — and the client's gate is still not met *)
Theorem C08_read_block_counts :
  forall (maxc : N) (fuel : nat) (dest : option N) (r : rstate) (w w' : world),
  pinv (rsp r) ->
  bytes_ok (remaining w) ->
  no_fault (wscript w) ->
  whole (wlog w) ->
  whole (output_buffer (rsp r)) ->
  await_input maxc fuel dest r w = Halt ODeadlock w' ->
  exists delivered : list N,
    remaining w = delivered ++ remaining w' /\
    wlog w' = wlog w ++ R maxc (abs (rsp r)) delivered /\
    whole (R maxc (abs (rsp r)) delivered) /\
    counts (wlog w') = cadd (counts (wlog w)) (counts (R maxc (abs (rsp r)) delivered)) /\
    (exists ge gm : N,
       next_gate w' = Some (ge, gm) /\ (fst (counts (wlog w')) < ge \/ snd (counts (wlog w')) < gm)).
Proof. exact read_block_counts. Qed.

(* MAIN (the peer of the property): if every gate of the client asks for no more than what is already in the
   log plus the replies owed (by the specification) for the bytes of the segments before it, a handler read
   NEVER ends in the wait-for cycle — whatever the transport's read/write readiness pattern *)
Theorem C08_peer_read_never_deadlocks :
  forall (maxc : N) (fuel : nat) (dest : option N) (r : rstate) (w w' : world),
  pinv (rsp r) ->
  bytes_ok (remaining w) ->
  no_fault (wscript w) ->
  whole (wlog w) ->
  whole (output_buffer (rsp r)) ->
  (forall (pre : list (N * N * bytes)) (ge gm : N) (b : bytes) (post : list (N * N * bytes)),
   segs w = pre ++ (ge, gm, b) :: post ->
   b <> [] ->
   let owed := cadd (counts (wlog w)) (counts (R maxc (abs (rsp r)) (flat pre))) in
   ge <= fst owed /\ gm <= snd owed) -> await_input maxc fuel dest r w <> Halt ODeadlock w'.
Proof. exact peer_read_no_deadlock. Qed.

(* between requests: the log has grown by exactly the (complete-record) outputs of the parse calls made,
   counted additively, when parse_request waits for the client *)
Theorem C08_parse_request_block_counts :
  forall (norm : bytes -> bytes) (maxc : N) (fuel : nat) (p : parser) (new : bytes) (w w' : world),
  parser_ok p ->
  bytes_ok new ->
  len new <= input_space p ->
  world_ok w ->
  no_fault (wscript w) ->
  whole (wlog w) ->
  parse_request norm maxc fuel p new w = Halt ODeadlock w' ->
  exists outs : list bytes,
    pr_chain norm maxc p new outs /\
    wlog w' = wlog w ++ concat outs /\
    whole (concat outs) /\
    counts (wlog w') = cadd (counts (wlog w)) (counts (concat outs)) /\
    (exists ge gm : N,
       next_gate w' = Some (ge, gm) /\ (fst (counts (wlog w')) < ge \/ snd (counts (wlog w')) < gm)).
Proof. exact parse_request_block_counts. Qed.

(* MAIN, whole connection: on a fault-free transport, for EVERY buffer size, every list of well-formed handler
   scripts that await the reads they start (reading, buffered reading, stream switching, writing, early return,
   own status, failing; NOT the read polled once and dropped of op 11: see C08_abandoned_read_counterexample),
   every read/write readiness pattern and every client whose segments are whole records and whose gates ask
   only for management replies owed for records of EARLIER segments (pipelining allowed), the connection task
   RETURNS: server and peer never wait for each other *)
Theorem C08_peer_never_deadlocks :
  forall (norm : bytes -> bytes) (maxc : N) (scripts : list (list N)) (B : N)
    (sg : list (N * N * list ReqWire.rcd)) (w0 : world),
  B < SIZE_LIMIT - 8 ->
  scripts_ok true scripts ->
  Forall no_abandoned_read scripts ->
  segs w0 = enc_segs sg ->
  peer_segs 0 sg ->
  wlog w0 = [] ->
  no_fault (wscript w0) ->
  no_read_fault (rscript w0) ->
  stop_at w0 = 0 ->
  stopped w0 = false ->
  len (flat (segs w0)) < SIZE_LIMIT ->
  fst (run_loop norm maxc (nb w0 + 4) (new_parser B) scripts 0 w0) = ORet.
Proof. exact peer_never_deadlocks. Qed.

(* MAIN, the one-outstanding client of C07: one complete request per segment (C01-style preamble with junk,
   then stream records in which every input stream of the role is terminated; management and unknown-type
   records anywhere; no stray BeginRequest / AbortRequest), request j+1 released after exactly j EndRequest
   records and at most the management replies owed so far: for every buffer size, handler scripts and readiness
   pattern the connection task RETURNS — whether the client waits for an EndRequest or for a management reply *)
Theorem C08_client_never_deadlocks :
  forall (norm : bytes -> bytes) (maxc : N) (scripts : list (list N)) (B : N) 
    (cs : list (N * N * creq)) (w0 : world),
  B < SIZE_LIMIT - 8 ->
  scripts_ok true scripts ->
  Forall no_abandoned_read scripts ->
  segs w0 = enc_client cs ->
  client_segs 0 0 cs ->
  wlog w0 = [] ->
  no_fault (wscript w0) -> fst (run_loop norm maxc (nb w0 + 4) (new_parser B) scripts 0 w0) = ORet.
Proof. exact client_never_deadlocks. Qed.

(* non-vacuity of C08_peer_read_never_deadlocks: a GetValues query in the first segment, the second segment gated on its
   reply (gm = 1): all hypotheses hold, the read returns the Stdin bytes; with the gate at 2 replies the read does deadlock *)
Example C08_peer_example : forall fuel dest w', await_input 10 fuel dest ex_peer_r ex_peer_w <> Halt ODeadlock w'.
Proof. exact ex_peer_no_deadlock. Qed.

(* non-vacuity of C08_peer_never_deadlocks: a request whose Stdin carries a GetValues query in segment 1 and whose second segment is
   gated on that reply: the hypotheses hold and the run returns; with the gate asking for 2 replies the peer condition fails and
   the run does end in the wait-for cycle *)
Example C08_connection_example : forall norm maxc,
  fst (run_loop norm maxc (nb (ex2_w 1) + 4) (new_parser 64) ex2_scripts 0 (ex2_w 1)) = ORet.
Proof. exact ex2_never_deadlocks. Qed.

(* non-vacuity of C08_client_never_deadlocks: two KeepConn requests in two segments, the second released after one EndRequest *)
Example C08_client_example : forall norm maxc,
  fst (run_loop norm maxc (nb (ex3_w 1) + 4) (new_parser 64) ex3_scripts 0 (ex3_w 1)) = ORet.
Proof. exact ex3_never_deadlocks. Qed.

(* the hypothesis no_abandoned_read of C08_only_waits_for_client and of the two MAIN theorems cannot be dropped (known finding
   F6): a well-formed script with op 11 (a read polled once and dropped while Request::poll_output has written only part of a
   management reply and holds Request.lock) followed by a StreamWriter write, every other hypothesis satisfied: the writer
   waits for the lock, the client for the rest of the reply — the run ends in the wait-for cycle; with the read awaited it
   returns.  Instances: Async/PeerProofs2.v (ex2p_hyps ...), Async/PeerProofs3.v (ex3p_hyps ...) *)
Example C08_abandoned_read_counterexample :
  (scripts_ok true (ex2p_scripts 11) /\ ~ Forall no_abandoned_read (ex2p_scripts 11) /\
   segs ex2p_w = enc_segs ex2p_sg /\ peer_segs 0 ex2p_sg /\ wlog ex2p_w = [] /\ no_fault (wscript ex2p_w) /\
   no_read_fault (rscript ex2p_w) /\ stop_at ex2p_w = 0 /\ stopped ex2p_w = false) /\
  fst (run_loop (fun b => b) 10 (nb ex2p_w + 4) (new_parser 64) (ex2p_scripts 11) 0 ex2p_w) = ODeadlock /\
  fst (run_loop (fun b => b) 10 (nb ex2p_w + 4) (new_parser 64) (ex2p_scripts 1) 0 ex2p_w) = ORet.
Proof.
  destruct ex2p_hyps as (_ & H2 & H3 & _ & H5 & H6 & H7 & H8 & H9 & H10 & H11 & _).
  split; [exact (conj H2 (conj H3 (conj H5 (conj H6 (conj H7 (conj H8 (conj H9 (conj H10 H11))))))))|]. split; [exact (proj1 ex2p_abandoned_read_deadlocks)|exact (proj1 ex2p_awaited_read_returns)].
Qed.
Example C08_abandoned_read_counterexample_client :
  (scripts_ok true (ex3p_scripts 11) /\ ~ Forall no_abandoned_read (ex3p_scripts 11) /\
   segs ex3p_w = enc_client ex3p_cs /\ client_segs 0 0 ex3p_cs /\ wlog ex3p_w = [] /\ no_fault (wscript ex3p_w)) /\
  fst (run_loop (fun b => b) 10 (nb ex3p_w + 4) (new_parser 64) (ex3p_scripts 11) 0 ex3p_w) = ODeadlock /\
  fst (run_loop (fun b => b) 10 (nb ex3p_w + 4) (new_parser 64) (ex3p_scripts 1) 0 ex3p_w) = ORet.
Proof.
  destruct ex3p_hyps as (_ & H2 & H3 & _ & H5 & H6 & H7 & H8).
  split; [exact (conj H2 (conj H3 (conj H5 (conj H6 (conj H7 H8)))))|]. split; [exact (proj1 ex3p_abandoned_read_deadlocks)|exact (proj1 ex3p_awaited_read_returns)].
Qed.
