(* Props/C08.v — The server never waits for client input while it owes a reply.
   Only statements (interim; the invariant at every suspension point is added as Async/ConnReads.v completes). *)
From FV Require Import Base.Bytes Gen.Generated Parser.ReqModel Parser.ReqTargets Parser.StreamModel Async.Conn Async.ConnWrites Async.ConnTotal.

(* the only way the task can be suspended without a pending wake-up is a transport read that a GATED
   client does not satisfy: never a panic, a spin, or a wait on anything else *)
Theorem C08_only_waits_for_client : forall (norm : bytes -> bytes) (maxc : N) scripts B w0,
  world_ok w0 -> scripts_ok true scripts -> B < SIZE_LIMIT - 8 ->
  exists w, run_loop norm maxc (nb w0 + 4) (new_parser B) scripts 0 w0 = (ORet, w) \/
            (run_loop norm maxc (nb w0 + 4) (new_parser B) scripts 0 w0 = (ODeadlock, w) /\ ~ ungated w0).
Proof. exact run_loop_total. Qed.
