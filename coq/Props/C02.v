(* Props/C02.v — Input stream extraction delivers exactly the stream's bytes, once, in order.
   Only statements.  Index-level model: Parser/StreamModel.v; it refines the list-level machine of
   Parser/AbsStream.v (StreamRefine.v); the conservation laws are proved there (StreamInv.v) against the
   specification functions of Parser/StreamSpec.v. *)
From FV Require Import Base.Bytes Gen.Generated Parser.ReqModel Parser.StreamModel Parser.AbsStream Parser.StreamSpec
  Parser.StreamRefine Parser.StreamInv.

(* the index-level parser (cursors, copy_within, compress) computes exactly what the list-level machine
   computes, and keeps the buffer bookkeeping invariant (= debug_assert_invars!) *)
Theorem C02_refinement : forall maxc p new dest, RI p ->
  aparse maxc (abs p) new dest = absres (sparse maxc p new dest) /\ sparse_post p new dest (sparse maxc p new dest).
Proof. exact sparse_refines. Qed.

(* one call: what it delivers (into dest, or appended to the stream buffer) is exactly the front of what
   was still to come of the active stream; nothing lost, duplicated or reordered; Status.stream counts it *)
Theorem C02_call : forall maxc, T_content_stmt maxc.
Proof. exact T_content. Qed.

(* end-of-stream is reported exactly when the parser stands at the terminating header *)
Theorem C02_stream_end : forall maxc, T_end_stmt maxc.
Proof. exact T_end. Qed.

(* every legal schedule of parse(dest=Some/None) / consume_stream / compress / consume_output calls, any
   chunking: delivered ++ (stream buffer ++ future content) is conserved, likewise for the replies *)
Theorem C02_schedule : forall maxc ops a, a_inv a -> sched_legal maxc a ops ->
  step_law maxc a (fed ops) (fst (fst (srun maxc a ops))) (snd (fst (srun maxc a ops))) (snd (srun maxc a ops)).
Proof. exact schedule_law. Qed.
