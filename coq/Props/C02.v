(* Props/C02.v — Input stream extraction delivers exactly the stream's bytes, once, in order.
   Only statements.  Index-level model: Parser/StreamModel.v; it refines the list-level machine of
   Parser/AbsStream.v (StreamRefine.v); the conservation laws are proved there (StreamInv.v) against the
   specification functions of Parser/StreamSpec.v. *)
From FV Require Import Base.Bytes Gen.Generated Parser.ReqModel Parser.StreamModel Parser.AbsStream Parser.StreamSpec Parser.StreamRefine Parser.StreamInv Parser.ReqWire Parser.ReqTargets Parser.StreamFinal Parser.ProgressTargets Parser.ProgressProofs.

(* the index-level parser (cursors, copy_within, compress) computes exactly what the list-level machine
   computes, and keeps the buffer bookkeeping invariant (= debug_assert_invars!) *)
Theorem C02_refinement : forall maxc p new dest, RI p ->
  aparse maxc (abs p) new dest = absres (sparse maxc p new dest) /\ sparse_post p new dest (sparse maxc p new dest).
Proof. exact sparse_refines. Qed.

(* one call: what it delivers (into dest, or appended to the stream buffer) is exactly the front of what
   was still to come of the active stream; nothing lost, duplicated or reordered; Status.stream counts it *)
Theorem C02_call : forall maxc, T_content_stmt maxc.
Proof. exact T_content. Qed.

(* end-of-stream is reported exactly when the parser stands at the terminating header *)
Theorem C02_end_flag : forall maxc, T_end_stmt maxc.
Proof. exact T_end. Qed.

(* every legal schedule of parse(dest=Some/None) / consume_stream / compress / consume_output calls, any
   chunking: delivered ++ (stream buffer ++ future content) is conserved, likewise for the replies *)
Theorem C02_schedule : forall maxc ops a, a_inv a -> sched_legal maxc a ops ->
  step_law maxc a (fed ops) (fst (fst (srun maxc a ops))) (snd (fst (srun maxc a ops))) (snd (srun maxc a ops)).
Proof. exact schedule_law. Qed.

(* ==== pinned from the proof files (tools/write_props.py) ==== *)

(* the CONCRETE parser (cursors into one buffer), one call under the caller contract, ANY bytes: Ok or Err,
   never a panic; what it hands over is exactly the front of the specification content K of (fed ++ anything to
   come); replies R and every later stream's content F are conserved; Status.stream / Status.output count what
   was appended; the end flag is 'standing at the terminating header'; an error (abort, bad version) is sticky *)
Theorem C02_call_concrete :
  forall (maxc : N) (p : sp) (new : bytes) (dest : option N),
  sp_inv p ->
  call_legal p new dest ->
  (exists (p' : sp) (s : status),
     sparse maxc p new dest = StOk p' s /\
     call_post maxc p new dest p' s /\
     s_end s =
     match stream p with
     | Some _ =>
         at_terminator (r_role (sreq p)) (r_id (sreq p)) (stream p) (payload_rem p') 
           (padding_rem p') (raw_bytes p')
     | None => true
     end) \/
  (exists (p' : sp) (e : perr) (s : status),
     sparse maxc p new dest = StErr p' e s /\
     call_post maxc p new dest p' s /\
     (e = EAbortRequest \/ (exists v : N, e = EUnknownVersion v)) /\
     (forall (new' : bytes) (dest' : option N),
      call_legal p' new' dest' ->
      exists p'' : sp,
        sparse maxc p' new' dest' = StErr p'' e (first_status p') /\
        stream_buffer p'' = stream_buffer p' /\
        output_buffer p'' = output_buffer p' /\ raw_bytes p'' = raw_bytes p' ++ new')).
Proof. exact sparse_call. Qed.

(* every legal schedule of parse(Some/None) / consume_stream / compress / consume_output on the concrete
   parser, any chunking: no panic, invariant kept, consumed bytes are a prefix, delivered ++ K(final) =
   K(initial) etc. *)
Theorem C02_schedule_concrete :
  forall (maxc : N) (ops : list cop) (p0 : sp),
  sp_inv p0 ->
  csched_legal maxc p0 ops ->
  let pf := cfinal maxc p0 ops in
  cno_panic maxc p0 ops /\
  sp_inv pf /\
  stream pf = stream p0 /\
  sreq pf = sreq p0 /\
  len (buffer pf) = len (buffer p0) /\
  (exists consumed : list N, raw_bytes p0 ++ cfed ops = consumed ++ raw_bytes pf) /\
  (forall u : list N,
   K (abs p0) (cfed ops ++ u) = cdelivered maxc p0 ops ++ K (abs pf) u /\
   R maxc (abs p0) (cfed ops ++ u) = cemitted maxc p0 ops ++ R maxc (abs pf) u /\
   (forall sg : N,
    later_stream (abs p0) sg -> F (Some sg) (abs p0) (cfed ops ++ u) = F (Some sg) (abs pf) u)).
Proof. exact concrete_schedule. Qed.

(* the stream parser a finished request parser converts into: empty buffers, the role's first stream, the
   leftover as raw input *)
Theorem C02_initial_state :
  forall (rp : parser) (r : req),
  parser_ok rp ->
  st rp = Done r ->
  exists sp0 : sp,
    into_stream_parser rp = inl sp0 /\
    sp_inv sp0 /\
    sreq sp0 = r /\
    stream sp0 = Header.next_input_stream (r_role r) None /\
    len (buffer sp0) = cap rp /\
    stream_buffer sp0 = [] /\
    output_buffer sp0 = [] /\
    raw_bytes sp0 = held rp /\
    payload_rem sp0 = 0 /\
    padding_rem sp0 = 0 /\
    abs sp0 =
    {|
      a_B := cap rp;
      a_space := cap rp - len (held rp);
      a_parsed := [];
      a_raw := held rp;
      a_out := [];
      a_req := r;
      a_stream := Header.next_input_stream (r_role r) None;
      a_prem := 0;
      a_pad := 0;
      a_st := SSkip
    |}.
Proof. exact into_stream_parser_inv. Qed.

(* the specification content, read record by record: the bodies of the active stream's records of this request
   up to its terminator / an abort, whatever else (management, unknown, foreign-id, other-stream records,
   padding) lies between *)
Theorem C02_content_of_records :
  forall (role id : N) (sg : option N) (rs : list rcd) (t : list N),
  Forall rcd_ok rs ->
  sel_ok sg ->
  CF role id sg false 0 0 (enc_rcds rs ++ t) =
  content_rcds role id sg rs ++ (if content_open role id sg rs then CF role id sg false 0 0 t else []).
Proof. exact CF_rcds. Qed.

(* MAIN: a request parsed from the wire, then ANY legal schedule over a wire that continues with records rs
   (then bytes t): delivered ++ buffered ++ still-to-come = exactly the stream's content, each byte once, in
   order; all of it once the input is exhausted or the end was reached; at the end the terminator really was in
   the wire *)
Theorem C02_delivery :
  forall (maxc : N) (rp : parser) (r : req) (sp0 : sp) (rs : list rcd) (t : list N) 
    (ops : list cop) (u : list N),
  parser_ok rp ->
  st rp = Done r ->
  into_stream_parser rp = inl sp0 ->
  Forall rcd_ok rs ->
  held rp ++ cfed ops ++ u = enc_rcds rs ++ t ->
  csched_legal maxc sp0 ops ->
  let role := r_role r in
  let id := r_id r in
  let sg := Header.next_input_stream role None in
  let pf := cfinal maxc sp0 ops in
  let whole :=
    content_rcds role id sg rs ++ (if content_open role id sg rs then CF role id sg false 0 0 t else [])
    in
  cno_panic maxc sp0 ops /\
  sp_inv pf /\
  stream pf = sg /\
  sreq pf = r /\
  cdelivered maxc sp0 ops ++ stream_buffer pf ++ coming pf u = whole /\
  (raw_bytes pf ++ u = [] \/ stream_at_end pf = true ->
   cdelivered maxc sp0 ops ++ stream_buffer pf = whole) /\
  (stream_at_end pf = true ->
   ended_rcds role id sg rs = true \/ content_open role id sg rs = true /\ EF role id sg 0 0 t = true).
Proof. exact C02_delivery. Qed.

(* ... and when the wire consists of whole records only *)
Theorem C02_delivery_exact :
  forall (maxc : N) (rp : parser) (r : req) (sp0 : sp) (rs : list rcd) (t : list N) 
    (ops : list cop) (u : list N),
  parser_ok rp ->
  st rp = Done r ->
  into_stream_parser rp = inl sp0 ->
  Forall rcd_ok rs ->
  len t < HEADER_LEN ->
  held rp ++ cfed ops ++ u = enc_rcds rs ++ t ->
  csched_legal maxc sp0 ops ->
  let role := r_role r in
  let id := r_id r in
  let sg := Header.next_input_stream role None in
  let pf := cfinal maxc sp0 ops in
  cno_panic maxc sp0 ops /\
  sp_inv pf /\
  cdelivered maxc sp0 ops ++ stream_buffer pf ++ coming pf u = content_rcds role id sg rs /\
  (raw_bytes pf ++ u = [] \/ stream_at_end pf = true ->
   cdelivered maxc sp0 ops ++ stream_buffer pf = content_rcds role id sg rs) /\
  (stream_at_end pf = true -> ended_rcds role id sg rs = true).
Proof. exact C02_delivery_exact. Qed.

(* Status.stream_end is true exactly when the parser stands at the stream's end; then everything was delivered *)
Theorem C02_stream_end :
  forall (maxc : N) (rp : parser) (r : req) (sp0 : sp) (rs : list rcd) (t : list N) 
    (ops : list cop) (new : list N) (dest : option N) (u : list N) (p' : sp) (s : status),
  parser_ok rp ->
  st rp = Done r ->
  into_stream_parser rp = inl sp0 ->
  Forall rcd_ok rs ->
  held rp ++ cfed ops ++ new ++ u = enc_rcds rs ++ t ->
  csched_legal maxc sp0 ops ->
  call_legal (cfinal maxc sp0 ops) new dest ->
  sparse maxc (cfinal maxc sp0 ops) new dest = StOk p' s ->
  let role := r_role r in
  let id := r_id r in
  let sg := Header.next_input_stream role None in
  let whole :=
    content_rcds role id sg rs ++ (if content_open role id sg rs then CF role id sg false 0 0 t else [])
    in
  sg <> None ->
  s_end s = stream_at_end p' /\
  (s_end s = true ->
   cdelivered maxc sp0 ops ++ s_dest s ++ stream_buffer p' = whole /\
   (ended_rcds role id sg rs = true \/ content_open role id sg rs = true /\ EF role id sg 0 0 t = true)).
Proof. exact C02_stream_end. Qed.

(* liveness: once the terminator has been fed, the next parse(None) call reports the end *)
Theorem C02_end_reported :
  forall (maxc : N) (rp : parser) (r : req) (sp0 : sp) (rs : list rcd) (t : list N) 
    (ops : list cop) (new : list N),
  parser_ok rp ->
  st rp = Done r ->
  into_stream_parser rp = inl sp0 ->
  Forall rcd_ok rs ->
  held rp ++ cfed ops ++ new = enc_rcds rs ++ t ->
  csched_legal maxc sp0 ops ->
  call_legal (cfinal maxc sp0 ops) new None ->
  let role := r_role r in
  let id := r_id r in
  let sg := Header.next_input_stream role None in
  ended_rcds role id sg rs = true ->
  exists (p' : sp) (s : status),
    sparse maxc (cfinal maxc sp0 ops) new None = StOk p' s /\
    s_end s = true /\
    stream_at_end p' = true /\
    s_dest s = [] /\ cdelivered maxc sp0 ops ++ stream_buffer p' = content_rcds role id sg rs.
Proof. exact C02_end_reported. Qed.

(* PROGRESS in both delivery modes: a call that returns Ok leaves nothing of the selected stream behind in the
   unparsed part of the buffer, unless the caller's destination is full (then exactly c bytes were delivered):
   a call returns 0 bytes only when the buffered input holds no further byte of the stream *)
Theorem C02_parse_progress :
  forall (maxc : N) (p : sp) (new : bytes) (dest : option N) (p' : sp) (s : status),
  sp_inv p ->
  call_legal p new dest ->
  sparse maxc p new dest = StOk p' s ->
  coming p' [] = [] \/ (exists c : N, dest = Some c /\ len (s_dest s) = c).
Proof. exact parse_progress. Qed.

(* ... along a whole schedule: if the last call left its destination unfilled, what the caller has received
   plus the stream buffer is everything the bytes fed so far contain of the stream *)
Theorem C02_schedule_progress :
  forall (maxc : N) (rp : parser) (r : req) (sp0 : sp) (rs : list rcd) (t : list N) 
    (ops : list cop) (new : list N) (dest : option N) (u : list N) (p' : sp) (s : status),
  parser_ok rp ->
  st rp = Done r ->
  into_stream_parser rp = inl sp0 ->
  Forall rcd_ok rs ->
  held rp ++ cfed ops ++ new ++ u = enc_rcds rs ++ t ->
  csched_legal maxc sp0 ops ->
  call_legal (cfinal maxc sp0 ops) new dest ->
  sparse maxc (cfinal maxc sp0 ops) new dest = StOk p' s ->
  (forall c : N, dest = Some c -> len (s_dest s) < c) ->
  let role := r_role r in
  let id := r_id r in
  let sg := Header.next_input_stream role None in
  exists more : list N,
    cdelivered maxc sp0 ops ++ s_dest s ++ stream_buffer p' ++ more =
    content_rcds role id sg rs ++ (if content_open role id sg rs then CF role id sg false 0 0 t else []) /\
    more = coming p' u /\ coming p' [] = [].
Proof. exact schedule_progress. Qed.

(* non-vacuity: a Filter request, 9 records (Stdin / junk / Data), a 7-operation schedule with 1..n byte chunks *)
Example C02_example : cdelivered 10 exf_sp0 exf_ops1 ++ stream_buffer (cfinal 10 exf_sp0 exf_ops1) = [97; 98; 99].
Proof. exact (proj1 exf_C02). Qed.
