(* Props/C09.v — Async reads deliver exactly the active stream; output gated on the final stream.
   Only statements (interim: parser-level laws used by poll_input; connection-level theorems are added
   as Async/ConnReads.v completes). *)
From FV Require Import Base.Bytes Gen.Generated Parser.ReqModel Parser.StreamModel Parser.AbsStream Parser.StreamSpec
  Parser.StreamRefine Parser.StreamInv.

Theorem C09_parse_call : forall maxc, T_content_stmt maxc.
Proof. exact T_content. Qed.

Theorem C09_later_streams_untouched : forall maxc, T_later_stmt maxc.
Proof. exact T_later. Qed.

Theorem C09_select_later : forall maxc a s a' u, a_inv a -> aset_stream a s = ASetOk a' ->
  (Header.optN_eqb s (a_stream a) = true -> a' = a) /\
  (Header.optN_eqb s (a_stream a) = false ->
     a_stream a' = s /\ a_parsed a' = [] /\ a_req a' = a_req a /\ a_out a' = a_out a /\ a_raw a' = a_raw a /\ K a' u = F s a u) /\
  R maxc a' u = R maxc a u /\ (forall sg, F sg a' u = F sg a u) /\ a_inv a'.
Proof. exact set_stream_law. Qed.
