(* Props/C09.v — Async reads deliver exactly the active stream; output gated on the final stream.
   Only statements.  Model: Async/Conn.v (Request::poll_input / poll_output / writeable, handler scripts).
   K a u = the content of the active stream still to come from parser state a over future bytes u (Parser/StreamSpec.v);
   [remaining w] = client bytes not yet delivered by the transport; acct = the conservation record of Async/ConnReads.v. *)
From FV Require Import Base.Bytes Gen.Generated Parser.ReqModel Parser.ReqTargets Parser.StreamModel Parser.AbsStream Parser.StreamSpec Parser.StreamRefine Parser.StreamInv Async.Conn Async.ConnWrites Async.ConnTotal Async.ConnReads Async.ReadsWTargets Async.ReadsWProofs Codec.Varint Codec.NV Codec.Bodies Codec.Vars Parser.ReqWire Parser.StreamFinal Parser.EnvCanon Async.PeerTargets Async.PeerTargets2 Async.PeerTargets3 Async.PeerTargets4 Async.PeerProofs4 Async.BodyTargets Async.BodyProofs Async.BodyReadsTargets Async.BodyReadsProofs.
From FV Require Import Codec.Varint Codec.NV Codec.Bodies Codec.Vars Parser.ReqWire Parser.ReqTargets Parser.AbsStream Parser.StreamSpec Parser.StreamFinal Parser.EnvCanon
  Async.PeerTargets Async.PeerTargets2 Async.PeerTargets3 Async.PeerTargets4 Async.BodyTargets Async.BodyProofs Async.BodyReadsTargets Async.BodyReadsProofs.

(* ==== pinned from the proof files (tools/write_props.py) ==== *)

(* ONE poll of poll_input, any caller buffer (Some c / fill_buf = None), any transport behaviour: with dl the
   bytes handed to the caller, K(before)(remaining) = dl ++ K(after)(remaining'), replies and later streams
   conserved (acct); by outcome: Ok(n) with n = |dl| <= c, and Ok(0) for c > 0 only at end-of-stream; errors: a
   sticky parser error, UnexpectedEof only with no client byte left (or a full buffer), or the error of the
   flush; Pending leaves everything in place; and the writeable flag changes only as the gate law says *)
Theorem C09_poll_input :
  forall (maxc : N) (fuel : nat) (dest : option N) (r : rstate) (w : world) (p : pres (N * bytes + N))
    (r' : rstate) (w' : world),
  pinv (rsp r) ->
  bytes_ok (remaining w) ->
  (length (wscript w) + length (remaining w) + 2 <= fuel)%nat ->
  poll_input maxc fuel dest r w = (p, r', w') ->
  exists dl : bytes,
    acct maxc [] r w dl r' w' /\
    pi_case maxc dest dl r w p r' w' /\
    rwriteable r' = rwriteable r || poll_parses dest r && is_inl p && is_final_stream r.
Proof. exact poll_input_reads. Qed.

(* the awaited read (Pending/wake cycles folded in) *)
Theorem C09_await_input :
  forall (maxc : N) (fuel : nat) (dest : option N) (r : rstate) (w : world),
  pinv (rsp r) -> bytes_ok (remaining w) -> ai_post maxc dest r w (await_input maxc fuel dest r w).
Proof. exact await_input_reads. Qed.

(* end-of-file PERSISTS: at the terminator every later read returns Ok(0) without touching the transport's read
   side *)
Theorem C09_eof_persists :
  forall (maxc : N) (fuel : nat) (c : N) (r : rstate) (w : world) (p : pres (N * bytes + N)) 
    (r' : rstate) (w' : world),
  pinv (rsp r) ->
  at_term (abs (rsp r)) = true ->
  stream_buffer (rsp r) = [] ->
  0 < c ->
  (length (wscript w) + 1 < fuel)%nat ->
  poll_input maxc fuel (Some c) r w = (p, r', w') ->
  remaining w' = remaining w /\
  rscript w' = rscript w /\
  pinv (rsp r') /\
  at_term (abs (rsp r')) = true /\
  stream_buffer (rsp r') = [] /\
  match p with
  | PReady (inl (n, b)) => n = 0 /\ b = []
  | PReady (inr k) => fault_of k (wscript w) /\ output_buffer (rsp r) <> []
  | PWake => output_buffer (rsp r) <> []
  | PBlock => False
  end /\ (output_buffer (rsp r) = [] -> p = PReady (inl (0, [])) /\ w' = w).
Proof. exact poll_input_eof. Qed.

(* Ok(0) into a non-empty buffer means end-of-stream *)
Theorem C09_zero_is_eof :
  forall (maxc : N) (fuel : nat) (c : N) (r : rstate) (w : world) (b : bytes) (r' : rstate) (w' : world),
  pinv (rsp r) ->
  bytes_ok (remaining w) ->
  (length (wscript w) + length (remaining w) + 2 <= fuel)%nat ->
  0 < c ->
  poll_input maxc fuel (Some c) r w = (PReady (inl (0, b)), r', w') ->
  b = [] /\
  eos (abs (rsp r')) /\
  stream_buffer (rsp r') = [] /\ K (abs (rsp r)) (remaining w) = K (abs (rsp r')) (remaining w').
Proof. exact poll_input_zero_is_eof. Qed.

(* read_to_end returns exactly the stream's content *)
Theorem C09_read_to_end :
  forall (maxc : N) (fuel : nat) (acc : bytes) (r : rstate) (w : world) (acc' : bytes) 
    (r' : rstate) (w' : world),
  pinv (rsp r) ->
  bytes_ok (remaining w) ->
  read_all maxc fuel acc r w = Ok (0, acc', r') w' -> acc' = acc ++ K (abs (rsp r)) (remaining w).
Proof. exact read_all_complete. Qed.

(* a handler that only reads (read / read_to_end / fill_buf+consume in any mix, any buffer sizes): the bytes it
   observes, in order, are exactly a prefix of the stream content, and what it has not seen is still to come *)
Theorem C09_handler_reads :
  forall (maxc : N) (script : list N) (f : nat) (r : rstate) (w : world),
  rd_only script ->
  pinv (rsp r) ->
  bytes_ok (remaining w) ->
  match run_handler maxc f script r w with
  | Ok (st, r') w' =>
      exists (os : list obs) (fin : list (list N)),
        obs_of script os /\
        events w' = fin ++ flat_map obs_events (rev os) ++ events w /\
        fin_ok fin os st /\
        K (abs (rsp r)) (remaining w) = flat_map obs_bytes os ++ K (abs (rsp r')) (remaining w')
  | Halt _ w' =>
      exists (os : list obs) (rest : list N),
        obs_of script os /\
        events w' = flat_map obs_events (rev os) ++ events w /\
        K (abs (rsp r)) (remaining w) = flat_map obs_bytes os ++ rest
  end.
Proof. exact run_handler_read_only. Qed.

(* handlers that also switch streams / call writeable(): after a switch the delivered bytes are content of the
   newly selected stream computed from the handler's very first state (trace law tlaw) *)
Theorem C09_handler_reads_and_switches :
  forall (maxc : N) (script : list N) (f : nat) (r : rstate) (w : world),
  rd_script script ->
  pinv (rsp r) ->
  bytes_ok (remaining w) -> hr_post script (abs (rsp r)) (remaining w) r w (run_handler maxc f script r w).
Proof. exact run_handler_reads_top. Qed.

(* EVERY handler of the family, writes and flushes to stdout/stderr interleaved anywhere (all eleven opcodes,
   any write sizes, write faults included): the same trace law for the read side, whatever was written in
   between (hw_post / htlaw: Async/ReadsWTargets.v) *)
Theorem C09_handler_reads_with_writes :
  forall (maxc : N) (script : list N) (f : nat) (r : rstate) (w : world),
  any_script script ->
  pinv (rsp r) ->
  bytes_ok (remaining w) -> hw_post script (abs (rsp r)) (remaining w) r w (run_handler maxc f script r w).
Proof. exact run_handler_reads_w_top. Qed.

(* the gate: poll_input opens it only when it went to the parser, returned Ok and the active stream is the
   role's final stream; nothing closes it *)
Theorem C09_gate :
  forall (maxc : N) (fuel : nat) (dest : option N) (r : rstate) (w : world) (p : pres (N * bytes + N))
    (r' : rstate) (w' : world),
  pinv (rsp r) ->
  bytes_ok (remaining w) ->
  (length (wscript w) + length (remaining w) + 2 <= fuel)%nat ->
  poll_input maxc fuel dest r w = (p, r', w') ->
  (rwriteable r = true -> rwriteable r' = true) /\
  (rwriteable r' = true ->
   rwriteable r = true \/ poll_parses dest r = true /\ is_inl p = true /\ is_final_stream r = true) /\
  (poll_parses dest r = true -> is_inl p = true -> is_final_stream r = true -> rwriteable r' = true).
Proof. exact poll_input_gate. Qed.

(* Request::new opens the gate only for roles whose first stream is the final one *)
Theorem C09_initial_gate :
  forall role : N,
  (len (Header.role_input_streams role) <=? 1) = true ->
  Header.next_input_stream role (Header.next_input_stream role None) = None.
Proof. exact request_new_gate. Qed.

(* WHOSE bytes: over a whole connection of the one-outstanding client (C07; requests within the documented
   buffer bound, fault-free transport, every buffer size, handler scripts and readiness pattern) handler
   invocation i is started with request i, the role's first input stream selected, nothing delivered yet, and
   for EVERY input stream of the role the content still to come - the K / F of the trace law above, from whose
   front every read takes its bytes - is exactly that stream's content in the records the client sent for
   request i: nothing of an earlier or later request, nothing missing (run_loop_body = run_loop with a ghost
   trace: C09_body_trace_is_ghost) *)
Theorem C09_bodies_in_order :
  forall (norm : bytes -> bytes) (maxc : N) (scripts : list (list N)) (B : N) 
    (cs : list (N * N * creq)) (pairss : list (list (bytes * bytes))) (w0 : world),
  B < SIZE_LIMIT - 8 ->
  scripts_ok true scripts ->
  segs w0 = enc_client cs ->
  client_segs 0 0 cs ->
  wlog w0 = [] ->
  no_fault (wscript w0) ->
  length pairss = length cs ->
  (forall (i : nat) (c : creq) (ps : list (bytes * bytes)),
   nth_error (map snd cs) i = Some c -> nth_error pairss i = Some ps -> creq_fits B c ps) ->
  len (flat (segs w0)) < SIZE_LIMIT ->
  let tr := snd (run_loop_body norm maxc (nb w0 + 4) (new_parser B) scripts 0 w0 []) in
  (length tr <= length cs)%nat /\
  (forall (i : nat) (rq : req) (a : ast) (u : bytes) (c : creq) (ps : list (bytes * bytes)),
   nth_error tr i = Some (rq, a, u) ->
   nth_error (map snd cs) i = Some c ->
   nth_error pairss i = Some ps ->
   rq = sent_request norm c ps /\
   a_req a = rq /\
   a_parsed a = [] /\
   a_stream a = Header.next_input_stream (w_role (c_pre c)) None /\
   (forall sg : N,
    In sg (Header.role_input_streams (w_role (c_pre c))) ->
    to_come sg a u = content_rcds (w_role (c_pre c)) (w_id (c_pre c)) (Some sg) (c_srs c))).
Proof. exact bodies_in_order. Qed.

(* the ghost trace is a pure addition to Conn.run_loop *)
Theorem C09_body_trace_is_ghost :
  forall (norm : bytes -> bytes) (maxc : N) (fuel : nat) (p : parser) (scripts : list (list N))
    (served : nat) (w : world) (acc : list (req * ast * bytes)),
  fst (run_loop_body norm maxc fuel p scripts served w acc) = run_loop norm maxc fuel p scripts served w.
Proof. exact run_loop_body_erase. Qed.

(* END TO END: at EVERY handler invocation of such a connection (run_loop_inv = run_loop with a ghost trace of
   script, request state and world at each handler start: C09_invocation_trace_is_ghost) the trace law holds
   for the script that runs - hw_post: every read-side operation takes its bytes from the front of what is
   still to come of the selected stream, a newly selected stream delivers its content as of the start of the
   handler, whatever is written in between and however the run ends - AND the contents it speaks about are
   those of the request the client sent at that position: the handler of request i reads the body of request i *)
Theorem C09_connection_reads :
  forall (norm : bytes -> bytes) (maxc : N) (scripts : list (list N)) (B : N) 
    (cs : list (N * N * creq)) (pairss : list (list (bytes * bytes))) (w0 : world),
  B < SIZE_LIMIT - 8 ->
  scripts_ok true scripts ->
  Forall any_script scripts ->
  segs w0 = enc_client cs ->
  client_segs 0 0 cs ->
  wlog w0 = [] ->
  no_fault (wscript w0) ->
  length pairss = length cs ->
  (forall (i : nat) (c : creq) (ps : list (bytes * bytes)),
   nth_error (map snd cs) i = Some c -> nth_error pairss i = Some ps -> creq_fits B c ps) ->
  len (flat (segs w0)) < SIZE_LIMIT ->
  let tr := snd (run_loop_inv norm maxc (nb w0 + 4) (new_parser B) scripts 0 w0 []) in
  (length tr <= length cs)%nat /\
  (forall (i : nat) (script : list N) (r0 : rstate) (w1 : world) (c : creq) (ps : list (bytes * bytes)),
   nth_error tr i = Some (script, r0, w1) ->
   nth_error (map snd cs) i = Some c ->
   nth_error pairss i = Some ps ->
   script = nth i scripts (last scripts []) /\
   sreq (rsp r0) = sent_request norm c ps /\
   hw_post script (abs (rsp r0)) (remaining w1) r0 w1 (run_handler maxc (length script + 2) script r0 w1) /\
   stream (rsp r0) = Header.next_input_stream (w_role (c_pre c)) None /\
   (forall sg : N,
    In sg (Header.role_input_streams (w_role (c_pre c))) ->
    (if Header.optN_eqb (Some sg) (stream (rsp r0))
     then K (abs (rsp r0)) (remaining w1)
     else F (Some sg) (abs (rsp r0)) (remaining w1)) =
    content_rcds (w_role (c_pre c)) (w_id (c_pre c)) (Some sg) (c_srs c))).
Proof. exact connection_reads. Qed.

(* that ghost trace is a pure addition too *)
Theorem C09_invocation_trace_is_ghost :
  forall (norm : bytes -> bytes) (maxc : N) (fuel : nat) (p : parser) (scripts : list (list N))
    (served : nat) (w : world) (acc : list (list N * rstate * world)),
  fst (run_loop_inv norm maxc fuel p scripts served w acc) = run_loop norm maxc fuel p scripts served w.
Proof. exact run_loop_inv_erase. Qed.

(* non-vacuity: two keep-alive Responder requests with bodies abc / de: the trace has two entries whose Stdin
   content to come is abc / de *)
Theorem C09_bodies_example :
  let tr :=
    snd (run_loop_body (fun b : bytes => b) 10 (nb ex4_w + 4) (new_parser 64) ex4_scripts 0 ex4_w []) in
  length tr = 2%nat /\
  map (fun e : req * ast * bytes => fst (fst e)) tr =
  [{| r_id := 1; r_role := ROLE_Responder; r_flags := FLAG_KeepConn; r_env := ex4_ps1 |};
   {| r_id := 2; r_role := ROLE_Responder; r_flags := FLAG_KeepConn; r_env := ex4_ps2 |}] /\
  map (fun e : req * ast * bytes => to_come RT_Stdin (snd (fst e)) (snd e)) tr =
  [[97; 98; 99]; [100; 101]] /\
  map (fun e : req * ast * bytes => a_parsed (snd (fst e))) tr = [[]; []] /\
  map (fun e : req * ast * bytes => a_stream (snd (fst e))) tr = [Some RT_Stdin; Some RT_Stdin].
Proof. exact ex4_body_trace. Qed.

(* writeable(): Ok means the gate is open — or the stale case spelled out in the statement (gate closed, final
   stream already selected, buffered data, reachable only after a parser error; see DESIGN.md, observation O1) *)
Theorem C09_writeable :
  forall (maxc : N) (r : rstate) (w : world) (e : option N) (r' : rstate) (w' : world),
  pinv (rsp r) ->
  bytes_ok (remaining w) ->
  do_writeable maxc r w = Ok (e, r') w' ->
  (rwriteable r = true -> e = None /\ r' = r /\ w' = w) /\
  (rwriteable r = false ->
   let last := last_opt (r_role (sreq (rsp r))) in
   exists p1 : sp,
     set_stream (rsp r) last = SetOk p1 /\
     stream (rsp r') = last /\
     sreq (rsp r') = sreq (rsp r) /\
     is_final_stream r' = true /\
     acct maxc [] {| rsp := p1; rwriteable := false; rlock := rlock r; raborted := raborted r |} w [] r'
       w' /\
     match e with
     | Some _ => rwriteable r' = false
     | None =>
         rwriteable r' = true \/
         rwriteable r' = false /\ stream (rsp r) = last /\ stream_buffer (rsp r) <> [] /\ r' = r /\ w' = w
     end).
Proof. exact do_writeable_gate. Qed.

