(* Props/C15.v — The variable-length integer codec is a bijection on 0..2^31-1.
   Only statements; every proof is [exact lemma]. Model: Codec/Varint.v (src/protocol/varint.rs). *)
From FV Require Import Base.Bytes Gen.Generated Codec.Varint Codec.VarintProofs.

(* decode (encode v ++ rest) = (v, rest): same value, consumes exactly the encoded bytes *)
Theorem C15_roundtrip : forall v rest, v <= VARINT_MAX -> vi_read (vi_write v ++ rest) = Some (v, rest).
Proof. exact vi_roundtrip. Qed.

(* one byte for values below 128 *)
Theorem C15_shape_short : forall v, v < 128 -> vi_write v = [v].
Proof. exact vi_write_short. Qed.

(* four bytes, high bit set, big-endian otherwise *)
Theorem C15_shape_long : forall v, 128 <= v -> v <= VARINT_MAX ->
  vi_write v = [v / 16777216 + 128; v / 65536 mod 256; v / 256 mod 256; v mod 256].
Proof. exact vi_write_long. Qed.

Theorem C15_encoding_injective : forall v w, v <= VARINT_MAX -> w <= VARINT_MAX -> vi_write v = vi_write w -> v = w.
Proof. exact vi_write_inj. Qed.

(* conversion from u32 / usize succeeds exactly for 0..2^31-1 *)
Theorem C15_try_from_u32 : forall x, vi_try_from_u32 x = if x <=? 2147483647 then Some x else None.
Proof. exact vi_try_from_u32_spec. Qed.

Theorem C15_try_from_usize : forall x, vi_try_from_usize x = if x <=? 2147483647 then Some x else None.
Proof. exact vi_try_from_usize_spec. Qed.

(* decoding succeeds exactly when the one or four bytes announced by the first byte are present
   (failure = UnexpectedEof), consumes exactly those bytes, and yields a value in range *)
Theorem C15_read_complete : forall d, bytes_ok d ->
  match vi_read d with
  | Some (v, r) => v <= VARINT_MAX /\
                   exists h, d = h ++ r /\
                     match d with b0 :: _ => len h = (if b0 <? 128 then 1 else 4) | [] => False end
  | None => match d with [] => True | b0 :: r => 128 <= b0 /\ len r < 3 end
  end.
Proof. exact vi_read_complete. Qed.

(* every 1- or 4-byte encoding decodes, and re-encoding gives the canonical form *)
Theorem C15_read_write : forall d v r, bytes_ok d -> vi_read d = Some (v, r) ->
  vi_read (vi_write v ++ r) = Some (v, r) /\
  (forall h, d = h ++ r -> len h = len (vi_write v) -> h = vi_write v).
Proof. exact vi_read_write. Qed.

(* non-vacuity *)
Example C15_example : vi_read (vi_write 299560753 ++ [7]) = Some (299560753, [7])
  /\ vi_write 299560753 = [145; 218; 239; 49] /\ vi_read [145; 218; 239] = None.
Proof. vm_compute. repeat split; reflexivity. Qed.
