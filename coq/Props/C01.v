(* Props/C01.v — Request preamble decoding is exact under any record segmentation and chunking.
   Only statements.  Model: Parser/ReqModel.v (src/parser/request.rs); vocabulary: Parser/ReqWire.v. *)
From FV Require Import Base.Bytes Gen.Generated Codec.Varint Codec.NV Codec.Header Codec.Bodies Codec.Vars
  Parser.ReqModel Parser.ReqWire Parser.ReqTargets Parser.ReqRecords Parser.ReqFinal.

(* For every key normalisation [norm] (the implementation's is upper-casing of the lossy UTF-8
   decoding), every buffer size B, every well-formed preamble w — any junk before BeginRequest, any
   id 1..65535, role, flag byte, any cut of the Params payload into non-empty records with any
   padding, any junk (management, unknown-type, foreign-id, duplicate/foreign BeginRequest records)
   between them — whose payload is the encoding of [pairs], every pair within the documented bound
   (|name| + |value| + 13 <= effective buffer), every trailing byte string and EVERY read schedule:
   the parser finishes, holding exactly id, role, flags and the insertion log of the transmitted
   pairs under normalised names (last value wins on lookup), having emitted exactly the replies the
   specification owes, and the unread remainder (leftover ++ not yet fed) is exactly [trailing]. *)
Theorem C01_exact : forall (norm : bytes -> bytes) (maxc : N) B w pairs trailing sched,
  B < SIZE_LIMIT - 8 ->
  preamble_ok w -> Forall pair_ok pairs -> nv_write_all pairs = Some (preamble_payload w) ->
  Forall (pair_fits (aligned_bufsize B)) pairs -> preamble_fits (aligned_bufsize B) w ->
  bytes_ok trailing -> len (enc_rcds (preamble_rcds w) ++ trailing) < SIZE_LIMIT ->
  exists p unfed,
    run_schedule norm maxc (new_parser B) (enc_rcds (preamble_rcds w) ++ trailing) sched
      = SOk p true unfed (preamble_replies maxc w) /\
    st p = Done (mkReq (w_id w) (w_role w) (w_flags w) (env_log norm pairs)) /\
    held p ++ unfed = trailing.
Proof. exact F_preamble_exact. Qed.

(* looking a name up (under any spelling with the same normal form) finds the value of the LAST
   transmitted pair whose normalised name is equal, and nothing if there is none *)
Theorem C01_lookup_last_wins : forall (norm : bytes -> bytes) k pairs,
  env_lookup (norm k) (env_log norm pairs) =
    option_map snd (find (fun p => beq (norm k) (norm (fst p))) (rev pairs)).
Proof. exact env_lookup_last. Qed.

Theorem C01_lookup_none : forall (norm : bytes -> bytes) k pairs,
  env_lookup (norm k) (env_log norm pairs) = None <-> (forall p, In p pairs -> norm (fst p) <> norm k).
Proof. exact env_lookup_none. Qed.

(* non-vacuity: a 128-byte name (4-byte length prefix) cut inside the prefix and spread over three
   Params records, a GetValues query in between, B = 160, 1-byte reads *)
Definition ex_name : bytes := repeatN 65 128.
Definition ex_pairs : list (bytes * bytes) := [(ex_name, [7; 8]); ([66], [])].
Definition ex_payload : bytes := match nv_write_all ex_pairs with Some e => e | None => [] end.
Definition ex_gv : rcd := mkRcd RT_GetValues 0 [14; 0; 70; 67; 71; 73; 95; 77; 65; 88; 95; 67; 79; 78; 78; 83] [0; 0].
Definition ex_w : preamble :=
  mkPreamble [] 9 ROLE_Responder 1 []
    [mkPiece [] (take 2 ex_payload) [0]; mkPiece [ex_gv] (take 60 (drop 2 ex_payload)) [];
     mkPiece [] (drop 62 ex_payload) [0; 0; 0]] [] [0].

Example C01_example :
  run_schedule (fun b => b) 5 (new_parser 160) (enc_rcds (preamble_rcds ex_w) ++ [1; 2; 3]) (repeatN 1 400)
    = SOk (mkParser 160 [] (Done (mkReq 9 1 1 (env_log (fun b => b) ex_pairs)))) true [1; 2; 3]
          (preamble_replies 5 ex_w)
  /\ nv_write_all ex_pairs = Some (preamble_payload ex_w)
  /\ Forall (pair_fits (aligned_bufsize 160)) ex_pairs.
Proof.
  split; [vm_compute; reflexivity|]. split; [vm_compute; reflexivity|].
  repeat constructor; vm_compute; discriminate.
Qed.
