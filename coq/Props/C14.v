(* Props/C14.v — Graceful shutdown: in-flight requests finish, nothing new starts, waiter woken.
   Only statements.  Models: Async/WaitGroup.v (WaitGroupFuture / TaskToken of src/async_io/util.rs, with a
   token drop forced into each window of poll) and Async/Conn.v (Token::run with the stop listener). *)
From FV Require Import Base.Bytes Parser.ReqModel Parser.StreamModel Async.Conn Async.ConnWrites Async.ConnTotal Async.ConnReads Async.LoopTargets2 Async.LoopProofs2 Async.ConnLoop Async.WaitGroup Async.SyncTargets Async.SyncProofs Async.LogTargets Async.ShutdownTargets Async.ShutdownProofs Codec.Bodies Parser.ReqWire Parser.ReqTargets Async.ReadsWTargets Async.FrameTargets Async.EpilogueTargets Async.ShutdownAnswerTargets Async.ShutdownAnswerProofs.

(* the representation invariant holds after every history, for every number of tokens and every
   placement of token drops into the windows of WaitGroupFuture::poll *)
Theorem C14_wg_invariant : forall n ops, wg_inv (fst (wrun n ops)) (snd (wrun n ops)).
Proof. exact C14_wg_inv. Qed.

(* the shutdown future completes exactly when no token is alive at its liveness check: never
   earlier, and always then *)
Theorem C14_ready_iff_done : forall n ops w,
  let st := wrun n ops in
  fst (fst (wg_poll w (snd st) (fst st))) = (alive_at_check w (snd st) =? 0).
Proof. exact SyncProofs.C14_ready_iff_done. Qed.

(* no lost wake-up: if a poll returned Pending, then as soon as the last token is gone the waker it
   registered has been invoked — whether the final drop landed between the liveness check and the
   registration, between the registration and the release of the temporary reference, or later *)
Theorem C14_no_lost_wakeup : forall n ops w more,
  let st := wrun n ops in
  fst (fst (wg_poll w (snd st) (fst st))) = false ->
  (forall o, In o more -> o = WDrop) ->
  let st' := fold_left (fun st o => fst (wstep st o)) more
               (snd (fst (wg_poll w (snd st) (fst st))), snd (wg_poll w (snd st) (fst st))) in
  snd st' = 0 ->
  registered (fst st') = false /\ wake_count (fst st) < wake_count (fst st').
Proof. exact SyncProofs.C14_no_lost_wakeup. Qed.

(* connection side: the task polls the stop listener first whenever it is about to start or continue
   reading a new request; once shutdown was requested no further request is started — by
   definition of run_loop (first line) — stated for the record *)
Theorem C14_nothing_new : forall norm maxc fuel p scripts served w,
  stopped w = true -> run_loop norm maxc (S fuel) p scripts served w = (ORet, w).
Proof. intros. cbn [run_loop]. rewrite H. reflexivity. Qed.

Example C14_example :
  (* one token; its drop lands between Weak::upgrade and the waker registration: Pending, but woken *)
  wg_poll 2 1 (wg_init 1) = (false, mkWG 0 true false 1, 0).
Proof. reflexivity. Qed.

(* idle connections: while the client keeps silent (its next bytes are gated) the read between requests is given up as soon as
   a shutdown is requested: the connection task returns at once, nothing further is read, nothing is written *)
Theorem C14_idle_connection_stops : forall f L w,
  L <> 0 -> ConnReads.gated w -> stop_at w <> 0 -> stopped w = false ->
  await_read (S f) true L w = Halt ORet (w_stop w).
Proof. exact idle_read_is_interrupted. Qed.

(* ... and a shutdown requested while that read was merely not ready is noticed at its next wake-up *)
Theorem C14_pending_read_sees_stop : forall f L w w1,
  t_poll_read L w = (PWake, w1) -> stopped (w_bump w1) = true ->
  await_read (S f) true L w = Halt ORet (w_bump w1).
Proof. exact idle_read_sees_stop. Qed.

(* ==== pinned from the proof files (tools/write_props.py) ==== *)

(* 'in-flight requests complete': nothing inside a request looks at the stop listener - a handler run that
   completes without a shutdown request completes in exactly the same way (same result, same request state,
   same bytes read and written, same observations) whenever and however often shutdown is requested meanwhile *)
Theorem C14_inflight_handler_completes :
  forall (maxc : N) (f : nat) (script : list N) (r : rstate) (w1 w2 : world) (x : (N * N + N) * rstate)
    (w1' : world),
  same_mod_stop w1 w2 ->
  run_handler maxc f script r w1 = Ok x w1' ->
  exists w2' : world, run_handler maxc f script r w2 = Ok x w2' /\ same_mod_stop w1' w2'.
Proof. exact handler_ignores_stop. Qed.

(* ... and Request::close writes the same complete epilogue and takes the same reuse decision *)
Theorem C14_inflight_close_completes :
  forall (maxc : N) (r : rstate) (d c : N) (w1 w2 : world) (x : parser + N) (w1' : world),
  same_mod_stop w1 w2 ->
  do_close maxc r d c w1 = Ok x w1' ->
  exists w2' : world, do_close maxc r d c w2 = Ok x w2' /\ same_mod_stop w1' w2'.
Proof. exact close_ignores_stop. Qed.

(* a request blocked on its client is not aborted by the shutdown either: it keeps waiting *)
Theorem C14_blocked_request_keeps_waiting :
  forall (maxc : N) (f : nat) (script : list N) (r : rstate) (w1 w2 w1' : world),
  same_mod_stop w1 w2 ->
  run_handler maxc f script r w1 = Halt ODeadlock w1' ->
  exists w2' : world, run_handler maxc f script r w2 = Halt ODeadlock w2' /\ same_mod_stop w1' w2'.
Proof. exact handler_block. Qed.

(* THE WHOLE CONNECTION: run it twice, once with no shutdown ever (w1), once with a shutdown requested at ANY
   moment (w2: any stop_at, possibly already stopped; same client, transport scripts and log).  If the
   undisturbed run returns or ends up waiting for its client, then either the shutdown made no difference (same
   outcome, same handler invocations, same transport state), or the second run RETURNED and did so at a request
   boundary: its handler invocations are an initial segment of the undisturbed run's - each with the same
   request, handler result and transport log before, after and at the end of its close() -, every one of them
   was closed (answered by its complete epilogue: C07_connection_log), its transport log is a prefix of the
   undisturbed run's and it consumed no more input: no request is started after the shutdown, none in flight is
   cut short or answered differently, nothing is written that would not have been written anyway *)
Theorem C14_shutdown_cut :
  forall (norm : bytes -> bytes) (maxc : N) (fuel : nat) (p : parser) (scripts : list (list N)) 
    (n : nat) (w1 w2 : world) (acc : list served),
  same_io w1 w2 ->
  stop_at w1 = 0 ->
  stopped w1 = false ->
  let
  '(o1, w1', l1) := run_loop_log norm maxc fuel p scripts n w1 acc in
   let
   '(o2, w2', l2) := run_loop_log norm maxc fuel p scripts n w2 acc in
    o1 = ORet \/ o1 = ODeadlock ->
    o2 = o1 /\ l2 = l1 /\ same_io w1' w2' \/
    o2 = ORet /\
    stopped w2' = true /\
    (exists t : list served, l1 = l2 ++ t) /\
    Forall closed_entry (skipn (length acc) l2) /\
    is_prefix (wlog w2') (wlog w1') /\ consumed w2' <= consumed w1'.
Proof. exact shutdown_cut. Qed.

(* non-vacuity: two keep-alive requests and an idle client; with the stop requested before scheduling step 2
   the second run returns after the FIRST request (1 of 2 invocations, 48 of 96 log bytes), the undisturbed run
   serves both and then waits *)
Theorem C14_shutdown_cut_example :
  let
  '(o1, w1', l1) := exs_run 0 in
   let
   '(o2, w2', l2) := exs_run 2 in
    same_io (exs_w 0) (exs_w 2) /\
    o1 = ODeadlock /\
    o2 = ORet /\
    stopped w2' = true /\
    length l1 = 2%nat /\
    length l2 = 1%nat /\
    l1 = l2 ++ skipn 1 l1 /\
    map is_closed l1 = [true; true] /\
    wlog w1' = wlog w2' ++ skipn 48 (wlog w1') /\
    length (wlog w2') = 48%nat /\ length (wlog w1') = 96%nat /\ consumed w2' = 48 /\ consumed w1' = 95.
Proof. exact shutdown_cut_ex. Qed.

(* 'in-flight requests finish', on the DECODED transport log (corollary of C14_shutdown_cut and
   C07_epilogue_records): on a transport without write faults, with handlers that await their reads and write
   to Stdout / Stderr, in the run with a shutdown requested at any moment every handler invocation that was
   closed owns a stretch of the log that decodes completely and contains exactly one EndRequest of its id
   (last, after the empty stream records); and either the invocations are the undisturbed run's, or the task
   returned with EVERY invocation it started closed - none cut short - and these are an initial segment of the
   undisturbed run's *)
Theorem C14_shutdown_answers_inflight :
  forall (norm : bytes -> bytes) (maxc : N) (fuel : nat) (B : N) (scripts : list (list N)) (w1 w2 : world),
  B < SIZE_LIMIT - 8 ->
  world_ok w1 ->
  wlog w1 = [] ->
  no_fault (wscript w1) ->
  stop_at w1 = 0 ->
  stopped w1 = false ->
  scripts_ok false scripts ->
  Forall writes_std scripts ->
  Forall no_abandoned_read scripts ->
  same_io w1 w2 ->
  let
  '(o1, _, l1) := run_loop_log norm maxc fuel (new_parser B) scripts 0 w1 [] in
   let
   '(o2, w2', l2) := run_loop_log norm maxc fuel (new_parser B) scripts 0 w2 [] in
    o1 = ORet \/ o1 = ODeadlock ->
    Forall (fun s : served => match sv_closed s with
                              | Some L2 => answered_once s L2
                              | None => True
                              end) l2 /\
    (l2 = l1 \/
     o2 = ORet /\ stopped w2' = true /\ Forall closed_entry l2 /\ (exists t : list served, l1 = l2 ++ t)).
Proof. exact shutdown_answers_inflight. Qed.

