(* Props/C18.v — Input stream sequencing follows the role's order exactly.
   Only statements.  Model: Parser/StreamModel.v (cmp_input_streams, set_stream of src/parser/stream.rs). *)
From FV Require Import Base.Bytes Gen.Generated Codec.Header Parser.ReqModel Parser.StreamModel Parser.StreamSeqProofs Parser.ReqWire Parser.ReqTargets Parser.AbsStream Parser.StreamSpec Parser.StreamRefine Parser.StreamInv Parser.StreamFinal.

(* finite part, decided inside Coq over the whole domain stated here:
   all roles x requested {Stdin, Data} x current selection {none, any stream of the role} *)
Theorem C18_cmp_table : forall role recv e,
  In role ROLE_VALUES -> In recv IS_INPUT_STREAM ->
  (e = None \/ exists x, e = Some x /\ In x (role_input_streams role)) ->
  cmp_input_streams role recv e = Some (spec_cmp role recv e).
Proof. intros role recv e Hr Hv He. apply cmp_table. apply cmp_domain_complete; assumption. Qed.

(* acceptance table of set_stream: a selection is accepted iff it does not move backwards along
   the role's order ('none' is last and absorbing); streams outside the role are rejected *)
Theorem C18_accept_table : forall role cur rq, In (role, cur, rq) accept_domain -> accept_table_row role cur rq = true.
Proof. exact accept_table. Qed.

(* for EVERY parser state: a rejected selection changes nothing, re-selecting the current stream
   keeps everything (buffered data included), an accepted change sets the new stream, empties the
   stream buffer and leaves request, record position and pending output untouched *)
Theorem C18_set_stream : forall p s,
  match accepts (r_role (sreq p)) (stream p) s with
  | None => set_stream p s = SetPanic
  | Some false => set_stream p s = SetErr
  | Some true =>
    if optN_eqb s (stream p) then set_stream p s = SetOk p
    else exists p', set_stream p s = SetOk p' /\ stream p' = s /\ stream_buffer p' = [] /\
                    sreq p' = sreq p /\ payload_rem p' = payload_rem p /\ padding_rem p' = padding_rem p /\
                    output p' = output p /\ output_start p' = output_start p
  end.
Proof. exact set_stream_spec. Qed.

(* the active stream starts at the first stream of the role *)
Theorem C18_initial_stream :
  forallb (fun role => optN_eqb (next_input_stream role None)
                                (match role_input_streams role with [] => None | x :: _ => Some x end)) ROLE_VALUES = true.
Proof. exact initial_stream_check. Qed.

(* the full clause 'only bytes of the active stream are ever delivered, for any record order and any history of
   set_stream calls' is C18_only_active / C18_only_active_records below *)

Example C18_example : cmp_input_streams ROLE_Filter RT_Data (Some RT_Stdin) = Some Gt
  /\ cmp_input_streams ROLE_Responder RT_Data (Some RT_Stdin) = Some Lt
  /\ cmp_input_streams ROLE_Filter RT_Stdin None = Some Lt.
Proof. repeat split; reflexivity. Qed.

(* ==== pinned from the proof files (tools/write_props.py) ==== *)

(* an accepted set_stream on ANY reachable state: request, buffer size, pending output, raw input, all replies
   and all stream contents are untouched; re-selecting the current stream changes nothing at all; a change
   empties the stream buffer and from then on the content is that of the newly selected stream, computed from
   the same bytes *)
Theorem C18_set_stream_effect :
  forall (maxc : N) (p : sp) (s : option N) (p' : sp),
  sp_inv p ->
  set_stream p s = SetOk p' ->
  sp_inv p' /\
  sreq p' = sreq p /\
  len (buffer p') = len (buffer p) /\
  output_buffer p' = output_buffer p /\
  raw_bytes p' = raw_bytes p /\
  (forall u : bytes, R maxc (abs p') u = R maxc (abs p) u) /\
  (forall (sg : option N) (u : bytes), F sg (abs p') u = F sg (abs p) u) /\
  (optN_eqb s (stream p) = true -> p' = p) /\
  (optN_eqb s (stream p) = false ->
   stream p' = s /\ stream_buffer p' = [] /\ (forall u : bytes, K (abs p') u = F s (abs p) u)).
Proof. exact set_stream_call. Qed.

(* a later stream of the role can always be selected *)
Theorem C18_later_selectable :
  forall (p : sp) (sg : N),
  sp_inv p ->
  later_stream (abs p) sg ->
  exists p' : sp, set_stream p (Some sg) = SetOk p' /\ optN_eqb (Some sg) (stream p) = false.
Proof. exact set_stream_later. Qed.

(* MAIN (full statement): any schedule, then set_stream(later stream), then any schedule: everything delivered
   in the second epoch is content of the newly selected stream and of no other (F of the ORIGINAL state over
   all bytes fed in both epochs), and the replies are conserved across the switch *)
Theorem C18_only_active :
  forall (maxc : N) (p0 : sp) (sg : N) (ops1 ops2 : list cop) (u : bytes),
  sp_inv p0 ->
  later_stream (abs p0) sg ->
  csched_legal maxc p0 ops1 ->
  exists p1 : sp,
    set_stream (cfinal maxc p0 ops1) (Some sg) = SetOk p1 /\
    (csched_legal maxc p1 ops2 ->
     let pf := cfinal maxc p1 ops2 in
     cno_panic maxc p0 ops1 /\
     cno_panic maxc p1 ops2 /\
     sp_inv pf /\
     stream pf = Some sg /\
     sreq pf = sreq p0 /\
     cdelivered maxc p1 ops2 ++ stream_buffer pf ++ coming pf u =
     F (Some sg) (abs p0) (cfed ops1 ++ cfed ops2 ++ u) /\
     cemitted maxc p0 ops1 ++ cemitted maxc p1 ops2 ++ output_buffer pf ++ replies_coming maxc pf u =
     output_buffer p0 ++ replies_coming maxc p0 (cfed ops1 ++ cfed ops2 ++ u)).
Proof. exact C18_only_active. Qed.

(* ... read record by record from the wire *)
Theorem C18_only_active_records :
  forall (maxc : N) (rp : parser) (r : req) (sp0 : sp) (sg : N) (rs : list rcd) 
    (t : list N) (ops1 ops2 : list cop) (u : list N),
  parser_ok rp ->
  st rp = Done r ->
  into_stream_parser rp = inl sp0 ->
  later_stream (abs sp0) sg ->
  Forall rcd_ok rs ->
  held rp ++ cfed ops1 ++ cfed ops2 ++ u = enc_rcds rs ++ t ->
  csched_legal maxc sp0 ops1 ->
  exists p1 : sp,
    set_stream (cfinal maxc sp0 ops1) (Some sg) = SetOk p1 /\
    (csched_legal maxc p1 ops2 ->
     let pf := cfinal maxc p1 ops2 in
     let role := r_role r in
     let id := r_id r in
     let whole :=
       content_rcds role id (Some sg) rs ++
       (if content_open role id (Some sg) rs then CF role id (Some sg) false 0 0 t else []) in
     cno_panic maxc p1 ops2 /\
     sp_inv pf /\
     stream pf = Some sg /\
     cdelivered maxc p1 ops2 ++ stream_buffer pf ++ coming pf u = whole /\
     (raw_bytes pf ++ u = [] \/ stream_at_end pf = true ->
      cdelivered maxc p1 ops2 ++ stream_buffer pf = whole)).
Proof. exact C18_only_active_rcds. Qed.

(* cmp_input_streams agrees with the readable order spec_cmp for EVERY role value *)
Theorem C18_cmp_all_roles :
  forall (role t : N) (sg : option N),
  is_input_stream t = true -> sel_ok sg -> cmp_input_streams role t sg = Some (spec_cmp role t sg).
Proof. exact cmp_spec_all. Qed.

