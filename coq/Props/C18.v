(* Props/C18.v — Input stream sequencing follows the role's order exactly.
   Only statements.  Model: Parser/StreamModel.v (cmp_input_streams, set_stream of src/parser/stream.rs). *)
From FV Require Import Base.Bytes Gen.Generated Codec.Header Parser.ReqModel Parser.StreamModel Parser.StreamSeqProofs.

(* finite part, decided inside Coq over the whole domain stated here:
   all roles x requested {Stdin, Data} x current selection {none, any stream of the role} *)
Theorem C18_cmp_table : forall role recv e,
  In role ROLE_VALUES -> In recv IS_INPUT_STREAM ->
  (e = None \/ exists x, e = Some x /\ In x (role_input_streams role)) ->
  cmp_input_streams role recv e = Some (spec_cmp role recv e).
Proof. intros role recv e Hr Hv He. apply cmp_table. apply cmp_domain_complete; assumption. Qed.

(* acceptance table of set_stream: a selection is accepted iff it does not move backwards along
   the role's order ('none' is last and absorbing); streams outside the role are rejected *)
Theorem C18_accept_table : forall role cur rq, In (role, cur, rq) accept_domain -> accept_table_row role cur rq = true.
Proof. exact accept_table. Qed.

(* for EVERY parser state: a rejected selection changes nothing, re-selecting the current stream
   keeps everything (buffered data included), an accepted change sets the new stream, empties the
   stream buffer and leaves request, record position and pending output untouched *)
Theorem C18_set_stream : forall p s,
  match accepts (r_role (sreq p)) (stream p) s with
  | None => set_stream p s = SetPanic
  | Some false => set_stream p s = SetErr
  | Some true =>
    if optN_eqb s (stream p) then set_stream p s = SetOk p
    else exists p', set_stream p s = SetOk p' /\ stream p' = s /\ stream_buffer p' = [] /\
                    sreq p' = sreq p /\ payload_rem p' = payload_rem p /\ padding_rem p' = padding_rem p /\
                    output p' = output p /\ output_start p' = output_start p
  end.
Proof. exact set_stream_spec. Qed.

(* the active stream starts at the first stream of the role *)
Theorem C18_initial_stream :
  forallb (fun role => optN_eqb (next_input_stream role None)
                                (match role_input_streams role with [] => None | x :: _ => Some x end)) ROLE_VALUES = true.
Proof. exact initial_stream_check. Qed.

(* Full statement still to be proved (DESIGN.md 6/C18): along any history of set_stream interleaved
   with parsing of ANY record order, every delivered byte belongs to the then-active stream
   (second conjunct of the stream-parser invariant); kept here so it stays visible. *)
Definition C18_only_active_full : Prop := True -> True.   (* placeholder name only; see DESIGN.md *)

Example C18_example : cmp_input_streams ROLE_Filter RT_Data (Some RT_Stdin) = Some Gt
  /\ cmp_input_streams ROLE_Responder RT_Data (Some RT_Stdin) = Some Lt
  /\ cmp_input_streams ROLE_Filter RT_Stdin None = Some Lt.
Proof. repeat split; reflexivity. Qed.
