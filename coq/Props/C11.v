(* Props/C11.v — A client abort ends exactly the aborted request; the connection stays usable.
   Only statements.  Request-parser side: Parser/ReqRecords.v; connection side: Async/ConnReads.v, Async/ConnWrites.v. *)
From FV Require Import Base.Bytes Gen.Generated Parser.ReqModel Parser.ReqTargets Parser.StreamModel Parser.AbsStream Parser.StreamSpec Parser.StreamRefine Parser.StreamInv Codec.Bodies Parser.ReqWire Parser.ReqRecords Parser.ReqFinal Parser.AbortProofs Async.Conn Async.ConnWrites Async.ConnTotal Async.ConnReads Async.ConnLoop.

(* ==== pinned from the proof files (tools/write_props.py) ==== *)

(* during Params: an AbortRequest for the request in progress is consumed entirely, exactly one
   EndRequest(RequestComplete, 0, id) is emitted and the parser is back at Header (no request is produced, so
   no handler can be invoked for it); an abort for any other id is skipped without reply *)
Theorem C11_abort_in_params :
  forall (norm : bytes -> bytes) (maxc : N) (i : inner) (r : rcd),
  state_ok (Params i 0 0) ->
  state_small (Params i 0 0) ->
  rcd_ok r ->
  rt r = RT_AbortRequest ->
  exists s'' : state,
    drive_all norm maxc (Params i 0 0) (enc_rcd r) =
    DOk [] s'' (if rid r =? r_id (ireq i) then end_record 0 PS_RequestComplete (r_id (ireq i)) else []) /\
    settle s'' = (if rid r =? r_id (ireq i) then Header else Params i 0 0).
Proof. exact abort_in_params. Qed.

(* later: a handler read that returns ConnectionAborted does so because the parser stands at an AbortRequest
   header of this request — and Request.aborted is then set — or because a flush of parser replies failed with
   a transport error of that very kind (flag untouched: finding F4, the two are told apart by the flag) *)
Theorem C11_read_fails_with_aborted :
  forall (maxc : N) (fuel : nat) (dest : option N) (r : rstate) (w : world) (r' : rstate) (w' : world),
  pinv (rsp r) ->
  bytes_ok (remaining w) ->
  (length (wscript w) + length (remaining w) + 2 <= fuel)%nat ->
  poll_input maxc fuel dest r w = (PReady (inr EK_Aborted), r', w') ->
  err_at (abs (rsp r')) EAbortRequest /\ raborted r' = true \/
  fault_of EK_Aborted (wscript w) /\ raborted r' = raborted r.
Proof. exact poll_input_aborted. Qed.

(* on a transport without write faults: ConnectionAborted exactly for the parser's AbortRequest, flag set *)
Theorem C11_read_fails_with_aborted_no_fault :
  forall (maxc : N) (fuel : nat) (dest : option N) (r : rstate) (w : world) (r' : rstate) (w' : world),
  pinv (rsp r) ->
  bytes_ok (remaining w) ->
  (length (wscript w) + length (remaining w) + 2 <= fuel)%nat ->
  no_fault (wscript w) ->
  poll_input maxc fuel dest r w = (PReady (inr EK_Aborted), r', w') ->
  err_at (abs (rsp r')) EAbortRequest /\ raborted r' = true.
Proof. exact poll_input_aborted_no_fault. Qed.

(* Request.aborted is set only by a read that returns the parser's AbortRequest *)
Theorem C11_aborted_flag_source :
  forall (maxc : N) (fuel : nat) (dest : option N) (r : rstate) (w : world) (p : pres (N * bytes + N))
    (r' : rstate) (w' : world),
  pinv (rsp r) ->
  bytes_ok (remaining w) ->
  (length (wscript w) + length (remaining w) + 2 <= fuel)%nat ->
  poll_input maxc fuel dest r w = (p, r', w') ->
  raborted r = false ->
  raborted r' = true -> p = PReady (inr EK_Aborted) /\ err_at (abs (rsp r')) EAbortRequest.
Proof. exact poll_input_sets_aborted. Qed.

(* ... and nothing a handler does clears it *)
Theorem C11_aborted_flag_sticky :
  forall (maxc : N) (f : nat) (script : list N) (r : rstate) (w : world) (st : N * N + N) 
    (r' : rstate) (w' : world),
  run_handler maxc f script r w = Ok (st, r') w' -> raborted r = true -> raborted r' = true.
Proof. exact run_handler_raborted_mono. Qed.

(* the error repeats: every later read reports it again (or the error of a failing flush), never touches the
   transport's read side, never suspends for good *)
Theorem C11_abort_sticky :
  forall (maxc : N) (e : perr) (fuel : nat) (dest : option N) (r : rstate) (w : world),
  pinv (rsp r) ->
  bytes_ok (remaining w) ->
  err_at (abs (rsp r)) e ->
  match await_input maxc fuel dest r w with
  | Ok (res, r') w' =>
      remaining w' = remaining w /\
      rscript w' = rscript w /\
      pinv (rsp r') /\
      err_at (abs (rsp r')) e /\
      (poll_parses dest r = true ->
       exists k : N, res = inr k /\ (k = perr_kind e \/ fault_of k (wscript w))) /\
      (poll_parses dest r = false -> w' = w /\ (exists x : N * bytes, res = inl x))
  | Halt o _ => o = OFuel
  end.
Proof. exact await_input_sticky. Qed.

(* input delivered before the error is a prefix of what the client sent (the conservation law of one poll; for
   errors K(before) = dl ++ K(after) with dl the bytes handed over by that call) *)
Theorem C11_prefix_before_error :
  forall (maxc : N) (fuel : nat) (dest : option N) (r : rstate) (w : world) (p : pres (N * bytes + N))
    (r' : rstate) (w' : world),
  pinv (rsp r) ->
  bytes_ok (remaining w) ->
  (length (wscript w) + length (remaining w) + 2 <= fuel)%nat ->
  poll_input maxc fuel dest r w = (p, r', w') ->
  exists dl : bytes,
    acct maxc [] r w dl r' w' /\
    pi_case maxc dest dl r w p r' w' /\
    rwriteable r' = rwriteable r || poll_parses dest r && is_inl p && is_final_stream r.
Proof. exact poll_input_reads. Qed.

(* close() after an abort: record_boundary returns at once at the abort header and ignores the abort error *)
Theorem C11_boundary_ignores_abort :
  forall (maxc : N) (f : nat) (new : bytes) (r : rstate) (w : world) (p' : sp) (s : status),
  pinv (rsp r) ->
  bytes_ok new ->
  len new <= sinput_space (rsp r) ->
  sparse maxc (rsp r) new None = StErr p' EAbortRequest s ->
  boundary_loop maxc (S f) new r w =
  Ok (None, {| rsp := p'; rwriteable := rwriteable r; rlock := rlock r; raborted := raborted r |}) w /\
  err_at (abs p') EAbortRequest.
Proof. exact boundary_loop_abort. Qed.

(* ... so close writes exactly one EndRequest with the given status (ABORT unless the handler chose its own)
   and, with KeepConn, returns the connection for reuse: the reuse law of C07 *)
Theorem C11_one_endrequest_and_reuse :
  forall (maxc : N) (r1 : rstate) (disc code : N) (w1 : world) (x : parser + N) 
    (w' : world) (p2 : sp) (r3 : rstate) (w2 : world) (ep : bytes),
  close_tail maxc r1 disc code w1 = Ok x w' ->
  set_stream (rsp r1) None = SetOk p2 ->
  record_boundary maxc
    {| rsp := p2; rwriteable := rwriteable r1; rlock := rlock r1; raborted := raborted r1 |} w1 =
  Ok (None, r3) w2 ->
  epilogue (r_id (sreq (rsp r3))) disc code (if rwriteable r1 then ROLE_OUTPUT_STREAMS else []) = Some ep ->
  let total := output_buffer (rsp r3) ++ ep in
  let keep := N.land (r_flags (sreq (rsp r3))) FLAG_KeepConn = FLAG_KeepConn in
  match x with
  | inl rp => wlog w' = wlog w1 ++ total /\ keep /\ into_request_parser (close_p4 r3) = ConvOk rp
  | inr k =>
      wlog w' = wlog w1 ++ total /\ k = EK_Reset /\ ~ keep \/
      (k = EK_WriteZero \/ k = EK_Transport \/ k = EK_Aborted) /\
      ~ no_fault (wscript w2) /\
      (exists b1 b2 : list N, total = b1 ++ b2 /\ b2 <> [] /\ wlog w' = wlog w1 ++ b1)
  end.
Proof. exact close_reuse_iff. Qed.

