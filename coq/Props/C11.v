(* Props/C11.v — A client abort ends exactly the aborted request; the connection stays usable.
   Only statements.  Request-parser side: Parser/ReqRecords.v; connection side: Async/ConnReads.v, Async/ConnWrites.v. *)
From FV Require Import Base.Bytes Gen.Generated Parser.ReqModel Parser.ReqTargets Parser.StreamModel Parser.AbsStream Parser.StreamSpec Parser.StreamRefine Parser.StreamInv Codec.Bodies Parser.ReqWire Parser.ReqRecords Parser.ReqFinal Parser.AbortProofs Async.Conn Async.ConnWrites Async.ConnTotal Async.ConnReads Async.ConnLoop Async.AbortFlowTargets Async.AbortFlowProofs.

(* ==== pinned from the proof files (tools/write_props.py) ==== *)

(* during Params: an AbortRequest for the request in progress is consumed entirely, exactly one
   EndRequest(RequestComplete, 0, id) is emitted and the parser is back at Header (no request is produced, so
   no handler can be invoked for it); an abort for any other id is skipped without reply *)
Theorem C11_abort_in_params :
  forall (norm : bytes -> bytes) (maxc : N) (i : inner) (r : rcd),
  state_ok (Params i 0 0) ->
  state_small (Params i 0 0) ->
  rcd_ok r ->
  rt r = RT_AbortRequest ->
  exists s'' : state,
    drive_all norm maxc (Params i 0 0) (enc_rcd r) =
    DOk [] s'' (if rid r =? r_id (ireq i) then end_record 0 PS_RequestComplete (r_id (ireq i)) else []) /\
    settle s'' = (if rid r =? r_id (ireq i) then Header else Params i 0 0).
Proof. exact abort_in_params. Qed.

(* later: a handler read that returns ConnectionAborted does so because the parser stands at an AbortRequest
   header of this request — and Request.aborted is then set — or because a flush of parser replies failed with
   a transport error of that very kind (flag untouched: finding F4, the two are told apart by the flag) *)
Theorem C11_read_fails_with_aborted :
  forall (maxc : N) (fuel : nat) (dest : option N) (r : rstate) (w : world) (r' : rstate) (w' : world),
  pinv (rsp r) ->
  bytes_ok (remaining w) ->
  (length (wscript w) + length (remaining w) + 2 <= fuel)%nat ->
  poll_input maxc fuel dest r w = (PReady (inr EK_Aborted), r', w') ->
  err_at (abs (rsp r')) EAbortRequest /\ raborted r' = true \/
  fault_of EK_Aborted (wscript w) /\ raborted r' = raborted r.
Proof. exact poll_input_aborted. Qed.

(* on a transport without write faults: ConnectionAborted exactly for the parser's AbortRequest, flag set *)
Theorem C11_read_fails_with_aborted_no_fault :
  forall (maxc : N) (fuel : nat) (dest : option N) (r : rstate) (w : world) (r' : rstate) (w' : world),
  pinv (rsp r) ->
  bytes_ok (remaining w) ->
  (length (wscript w) + length (remaining w) + 2 <= fuel)%nat ->
  no_fault (wscript w) ->
  poll_input maxc fuel dest r w = (PReady (inr EK_Aborted), r', w') ->
  err_at (abs (rsp r')) EAbortRequest /\ raborted r' = true.
Proof. exact poll_input_aborted_no_fault. Qed.

(* Request.aborted is set only by a read that returns the parser's AbortRequest *)
Theorem C11_aborted_flag_source :
  forall (maxc : N) (fuel : nat) (dest : option N) (r : rstate) (w : world) (p : pres (N * bytes + N))
    (r' : rstate) (w' : world),
  pinv (rsp r) ->
  bytes_ok (remaining w) ->
  (length (wscript w) + length (remaining w) + 2 <= fuel)%nat ->
  poll_input maxc fuel dest r w = (p, r', w') ->
  raborted r = false ->
  raborted r' = true -> p = PReady (inr EK_Aborted) /\ err_at (abs (rsp r')) EAbortRequest.
Proof. exact poll_input_sets_aborted. Qed.

(* ... and nothing a handler does clears it *)
Theorem C11_aborted_flag_sticky :
  forall (maxc : N) (f : nat) (script : list N) (r : rstate) (w : world) (st : N * N + N) 
    (r' : rstate) (w' : world),
  run_handler maxc f script r w = Ok (st, r') w' -> raborted r = true -> raborted r' = true.
Proof. exact run_handler_raborted_mono. Qed.

(* the error repeats: every later read reports it again (or the error of a failing flush), never touches the
   transport's read side, never suspends for good *)
Theorem C11_abort_sticky :
  forall (maxc : N) (e : perr) (fuel : nat) (dest : option N) (r : rstate) (w : world),
  pinv (rsp r) ->
  bytes_ok (remaining w) ->
  err_at (abs (rsp r)) e ->
  match await_input maxc fuel dest r w with
  | Ok (res, r') w' =>
      remaining w' = remaining w /\
      rscript w' = rscript w /\
      pinv (rsp r') /\
      err_at (abs (rsp r')) e /\
      (poll_parses dest r = true ->
       exists k : N, res = inr k /\ (k = perr_kind e \/ fault_of k (wscript w))) /\
      (poll_parses dest r = false -> w' = w /\ (exists x : N * bytes, res = inl x))
  | Halt o _ => o = OFuel
  end.
Proof. exact await_input_sticky. Qed.

(* input delivered before the error is a prefix of what the client sent (the conservation law of one poll; for
   errors K(before) = dl ++ K(after) with dl the bytes handed over by that call) *)
Theorem C11_prefix_before_error :
  forall (maxc : N) (fuel : nat) (dest : option N) (r : rstate) (w : world) (p : pres (N * bytes + N))
    (r' : rstate) (w' : world),
  pinv (rsp r) ->
  bytes_ok (remaining w) ->
  (length (wscript w) + length (remaining w) + 2 <= fuel)%nat ->
  poll_input maxc fuel dest r w = (p, r', w') ->
  exists dl : bytes,
    acct maxc [] r w dl r' w' /\
    pi_case maxc dest dl r w p r' w' /\
    rwriteable r' = rwriteable r || poll_parses dest r && is_inl p && is_final_stream r.
Proof. exact poll_input_reads. Qed.

(* close() after an abort: record_boundary returns at once at the abort header and ignores the abort error *)
Theorem C11_boundary_ignores_abort :
  forall (maxc : N) (f : nat) (new : bytes) (r : rstate) (w : world) (p' : sp) (s : status),
  pinv (rsp r) ->
  bytes_ok new ->
  len new <= sinput_space (rsp r) ->
  sparse maxc (rsp r) new None = StErr p' EAbortRequest s ->
  boundary_loop maxc (S f) new r w =
  Ok (None, {| rsp := p'; rwriteable := rwriteable r; rlock := rlock r; raborted := raborted r |}) w /\
  err_at (abs p') EAbortRequest.
Proof. exact boundary_loop_abort. Qed.

(* ... so close writes exactly one EndRequest with the given status (ABORT unless the handler chose its own)
   and, with KeepConn, returns the connection for reuse: the reuse law of C07 *)
Theorem C11_one_endrequest_and_reuse :
  forall (maxc : N) (r1 : rstate) (disc code : N) (w1 : world) (x : parser + N) 
    (w' : world) (p2 : sp) (r3 : rstate) (w2 : world) (ep : bytes),
  close_tail maxc r1 disc code w1 = Ok x w' ->
  set_stream (rsp r1) None = SetOk p2 ->
  record_boundary maxc
    {| rsp := p2; rwriteable := rwriteable r1; rlock := rlock r1; raborted := raborted r1 |} w1 =
  Ok (None, r3) w2 ->
  epilogue (r_id (sreq (rsp r3))) disc code (if rwriteable r1 then ROLE_OUTPUT_STREAMS else []) = Some ep ->
  let total := output_buffer (rsp r3) ++ ep in
  let keep := N.land (r_flags (sreq (rsp r3))) FLAG_KeepConn = FLAG_KeepConn in
  match x with
  | inl rp => wlog w' = wlog w1 ++ total /\ keep /\ into_request_parser (close_p4 r3) = ConvOk rp
  | inr k =>
      wlog w' = wlog w1 ++ total /\ k = EK_Reset /\ ~ keep \/
      (k = EK_WriteZero \/ k = EK_Transport \/ k = EK_Aborted) /\
      ~ no_fault (wscript w2) /\
      (exists b1 b2 : list N, total = b1 ++ b2 /\ b2 <> [] /\ wlog w' = wlog w1 ++ b1)
  end.
Proof. exact close_reuse_iff. Qed.

(* ---- the abort flow end to end ----  Request::close on an aborted request, every fault-free transport, any
   status: it never suspends for good, reads nothing, writes exactly close_bytes (pending replies, the stream
   terminators owed, ONE EndRequest), and with KeepConn hands back a parser whose leftover is exactly the
   unparsed input beginning with the retained abort header (skipped as idle junk by the next request parser:
   C01/C07); without KeepConn the connection ends after the complete epilogue *)
Theorem C11_abort_close :
  forall (maxc : N) (r : rstate) (disc code app0 ps : N) (w : world),
  rinv r ->
  err_at (abs (rsp r)) EAbortRequest ->
  raborted r = true ->
  rlock r = false ->
  world_ok w ->
  no_fault (wscript w) ->
  exit_to_end disc code = Some (app0, ps) ->
  match do_close maxc r disc code w with
  | Ok (inl rp) w' =>
      keep_conn r /\
      wlog w' = wlog w ++ close_bytes r app0 ps /\
      remaining w' = remaining w /\
      rscript w' = rscript w /\
      held rp = raw_bytes (rsp r) /\ cap rp = len (buffer (rsp r)) /\ st rp = Header
  | Ok (inr k) w' =>
      k = EK_Reset /\
      ~ keep_conn r /\
      wlog w' = wlog w ++ close_bytes r app0 ps /\ remaining w' = remaining w /\ rscript w' = rscript w
  | Halt _ _ => False
  end.
Proof. exact abort_close. Qed.

(* where the aborted state comes from: a handler that only reads and does not fabricate a ConnectionAborted
   error of its own ends with Err(ConnectionAborted) on a fault-free transport ONLY because a read hit the
   client's AbortRequest: the parser stands at the abort header and Request.aborted is set *)
Theorem C11_handler_abort_source :
  forall (maxc : N) (f : nat) (script : list N) (r : rstate) (w : world) (r1 : rstate) (w1 : world),
  no_fab script ->
  rinv r ->
  world_ok w ->
  no_fault (wscript w) ->
  rlock r = false ->
  run_handler maxc f script r w = Ok (inr EK_Aborted, r1) w1 ->
  rinv r1 /\
  world_ok w1 /\
  no_fault (wscript w1) /\ rlock r1 = false /\ err_at (abs (rsp r1)) EAbortRequest /\ raborted r1 = true.
Proof. exact handler_abort_source. Qed.

(* one iteration of Token::run for such a request: the handler's Err(ConnectionAborted) becomes
   ExitStatus::ABORT ('ABRT', RequestComplete), exactly close_bytes follow what the handler run had written,
   nothing more is read; with KeepConn the loop goes on with the handed-back parser, otherwise the task returns *)
Theorem C11_abort_iteration :
  forall (norm : bytes -> bytes) (maxc : N) (fuel : nat) (p : parser) (scripts : list (list N))
    (served : nat) (w : world) (s0 : sp) (w' : world),
  stopped w = false ->
  parse_request norm maxc (io_fuel w 0) p [] w = Ok (inl s0) w' ->
  let rq := sreq s0 in
  let r0 :=
    {|
      rsp := s0;
      rwriteable := len (Header.role_input_streams (r_role rq)) <=? 1;
      rlock := false;
      raborted := false
    |} in
  let env := EnvCanon.canon_env (r_env rq) in
  let w1 :=
    fold_left (fun (w0 : world) (p0 : list N * list N) => w_ev (w_ev w0 (fst p0)) (snd p0)) env
      (w_ev (w_ev w' [100; epoch w'])
         [r_role rq; r_flags rq; len env; stream_code (stream s0); if rwriteable r0 then 1 else 0]) in
  let script := nth served scripts (last scripts []) in
  forall (r1 : rstate) (w2 : world),
  no_fab script ->
  rinv r0 ->
  world_ok w1 ->
  no_fault (wscript w1) ->
  run_handler maxc (length script + 2) script r0 w1 = Ok (inr EK_Aborted, r1) w2 ->
  exists w3 : world,
    wlog w3 = wlog w2 ++ close_bytes r1 EXIT_ABORT_CODE PS_RequestComplete /\
    remaining w3 = remaining w2 /\
    (keep_conn r1 /\
     (exists rp : parser,
        held rp = raw_bytes (rsp r1) /\
        cap rp = len (buffer (rsp r1)) /\
        st rp = Header /\
        run_loop norm maxc (S fuel) p scripts served w = run_loop norm maxc fuel rp scripts (S served) w3) \/
     ~ keep_conn r1 /\ run_loop norm maxc (S fuel) p scripts served w = (ORet, w3)).
Proof. exact abort_iteration. Qed.

(* non-vacuity of C11_abort_close: a Responder request (KeepConn) whose Stdin is followed by a GetValues query and the AbortRequest; the
   handler propagates its read errors; reads and writes are cut and Pending in between: every hypothesis holds for the state the
   handler run ends in, and close writes the two stream terminators and ONE EndRequest carrying "ABRT"; the handed-back parser holds
   the abort record and what followed it *)
Example C11_abort_close_example :
  match do_close 10 AbortExample.r1 EXIT_Complete EXIT_ABORT_CODE AbortExample.w1 with
  | Ok (inl rp') w' =>
      wlog w' = wlog AbortExample.w1 ++ [1;6;0;7;0;0;0;0; 1;7;0;7;0;0;0;0; 1;3;0;7;0;8;0;0; 65;66;82;84; 0; 0;0;0] /\
      held rp' = [1;2;0;7;0;0;2;0;9;9; 1;5;0;7;0;0;0;0] /\ cap rp' = 128 /\ st rp' = Header
  | _ => False
  end.
Proof. exact AbortExample.abort_close_instance. Qed.
