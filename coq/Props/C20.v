(* Props/C20.v — CGI response header writers emit exactly the documented grammar and byte count.
   Only statements; every proof is [exact lemma]. Model: Cgi/Response.v (src/cgi/response.rs).

   Reading guide. A destination is [mkW out room]: the bytes it holds and how many more fit
   ([Some r] = a `&mut [u8]` with r bytes left, [None] = a Vec<u8>).  A result [Some n] is Ok(n),
   [None] is Err(WriteZero).  [reason] is http's canonical_reason table; every theorem holds for any
   table.  Byte strings are spelled as numbers; [C20_ascii_literals] certifies their ASCII reading. *)
From Coq Require Import String Ascii.
From FV Require Import Base.Bytes Cgi.Response Cgi.ResponseProofs.

Local Notation "'b_Status'" := [83; 116; 97; 116; 117; 115; 58; 32].         (* "Status: " *)
Local Notation "'b_Custom'" := [67; 117; 115; 116; 111; 109].               (* "Custom" *)
Local Notation "'b_Location'" := [76; 111; 99; 97; 116; 105; 111; 110; 58; 32]. (* "Location: " *)
Local Notation "'b_colon_sp'" := [58; 32].                                  (* ": " *)
Local Notation "'b_sp'" := [32].
Local Notation "'b_nl'" := [10].
Local Notation "'b_nlnl'" := [10; 10].
(* number of newline bytes *)
Local Notation nl_count l := (len (filter (N.eqb 10) l)).
(* ASCII text -> bytes, used in the examples only *)
Local Notation bs s := (map N_of_ascii (list_ascii_of_string s%string)).

(* write_headers into a bounded destination of [cap] free bytes: if the documented text fits it is
   appended completely (earlier contents [out0] untouched), the room shrinks by its length and the
   result is Ok(its length); otherwise the result is Err, the destination is full and holds exactly
   the first [cap] bytes of the text — never a success report. *)
Theorem C20_headers : forall (reason : N -> option bytes) out0 cap code hs,
  let expected :=
    b_Status ++ status_as_str code ++ b_sp
    ++ match reason code with Some r => r | None => b_Custom end
    ++ concat (map (fun '(n, v) => b_nl ++ n ++ b_colon_sp ++ v) hs) ++ b_nlnl in
  (len expected <= cap ->
     write_headers reason (mkW out0 (Some cap)) code hs =
     (mkW (out0 ++ expected) (Some (cap - len expected)), Some (len expected)))
  /\ (cap < len expected ->
     write_headers reason (mkW out0 (Some cap)) code hs =
     (mkW (out0 ++ take cap expected) (Some 0), None)
     /\ len (take cap expected) = cap).
Proof. exact write_headers_bounded. Qed.

(* simple_redirect likewise, with the text "Location: <loc>\n\n" *)
Theorem C20_redirect : forall out0 cap loc,
  let expected := b_Location ++ loc ++ b_nlnl in
  (len expected <= cap ->
     simple_redirect (mkW out0 (Some cap)) loc =
     (mkW (out0 ++ expected) (Some (cap - len expected)), Some (len expected)))
  /\ (cap < len expected ->
     simple_redirect (mkW out0 (Some cap)) loc = (mkW (out0 ++ take cap expected) (Some 0), None)
     /\ len (take cap expected) = cap).
Proof. exact simple_redirect_bounded. Qed.

(* unbounded destination (Vec<u8>): always Ok with the exact count; the text is appended after the
   existing contents, which are untouched *)
Theorem C20_vec : forall (reason : N -> option bytes) out0 code hs loc,
  write_headers reason (mkW out0 None) code hs =
    (let expected :=
       b_Status ++ status_as_str code ++ b_sp
       ++ match reason code with Some r => r | None => b_Custom end
       ++ concat (map (fun '(n, v) => b_nl ++ n ++ b_colon_sp ++ v) hs) ++ b_nlnl in
     (mkW (out0 ++ expected) None, Some (len expected)))
  /\ simple_redirect (mkW out0 None) loc =
    (let expected := b_Location ++ loc ++ b_nlnl in
     (mkW (out0 ++ expected) None, Some (len expected))).
Proof. exact vec_both. Qed.

(* whatever the destination: Ok(n) means that exactly n bytes were appended, that they are the
   documented text, and that a bounded destination lost exactly n bytes of room *)
Theorem C20_count_is_written : forall (reason : N -> option bytes) w code hs w' n,
  write_headers reason w code hs = (w', Some n) ->
  exists added,
    w_out w' = w_out w ++ added /\ len added = n
    /\ added = b_Status ++ status_as_str code ++ b_sp
               ++ match reason code with Some r => r | None => b_Custom end
               ++ concat (map (fun '(n, v) => b_nl ++ n ++ b_colon_sp ++ v) hs) ++ b_nlnl
    /\ w_room w' = match w_room w with Some r => Some (r - n) | None => None end
    /\ match w_room w with Some r => n <= r | None => True end.
Proof. exact write_headers_count. Qed.

Theorem C20_count_is_written_redirect : forall w loc w' n,
  simple_redirect w loc = (w', Some n) ->
  exists added,
    w_out w' = w_out w ++ added /\ len added = n
    /\ added = b_Location ++ loc ++ b_nlnl
    /\ w_room w' = match w_room w with Some r => Some (r - n) | None => None end
    /\ match w_room w with Some r => n <= r | None => True end.
Proof. exact simple_redirect_count. Qed.

(* http_headers is write_headers on the response's status and header iterator *)
Theorem C20_http_headers : forall (reason : N -> option bytes) w code hs,
  http_headers reason w code hs = write_headers reason w code hs.
Proof. exact http_headers_eq. Qed.

(* grammar: when no name, value or reason phrase contains '\n', the text has exactly
   (number of headers + 2) newline bytes: one ending the status line, one ending each header line,
   one for the blank line ... *)
Theorem C20_line_count : forall (reason : N -> option bytes) code hs,
  (forall r, reason code = Some r -> nl_count r = 0) ->
  Forall (fun h => nl_count (fst h) = 0 /\ nl_count (snd h) = 0) hs ->
  nl_count (b_Status ++ status_as_str code ++ b_sp
            ++ match reason code with Some r => r | None => b_Custom end
            ++ concat (map (fun '(n, v) => b_nl ++ n ++ b_colon_sp ++ v) hs) ++ b_nlnl)
  = len hs + 2.
Proof. exact count_expected. Qed.

(* ... and cutting it at the newlines gives back exactly: the status line, one "name: value" line
   per header in the given order, the empty line, and nothing after it *)
Theorem C20_lines : forall (reason : N -> option bytes) code hs,
  (forall r, reason code = Some r -> nl_count r = 0) ->
  Forall (fun h => nl_count (fst h) = 0 /\ nl_count (snd h) = 0) hs ->
  split_on 10 (b_Status ++ status_as_str code ++ b_sp
               ++ match reason code with Some r => r | None => b_Custom end
               ++ concat (map (fun '(n, v) => b_nl ++ n ++ b_colon_sp ++ v) hs) ++ b_nlnl)
  = (b_Status ++ status_as_str code ++ b_sp
     ++ match reason code with Some r => r | None => b_Custom end)
    :: map (fun h => fst h ++ b_colon_sp ++ snd h) hs ++ [[]; []].
Proof. exact split_expected. Qed.

Theorem C20_redirect_lines : forall loc, nl_count loc = 0 ->
  split_on 10 (b_Location ++ loc ++ b_nlnl) = [b_Location ++ loc; []; []].
Proof. exact split_redirect. Qed.

(* the code field: exactly the constructible status codes are 100..999, and for those the three
   bytes are the ASCII decimal digits of the code (hundreds digit non-zero), hence never '\n' and
   distinct for distinct codes *)
Theorem C20_status_domain : forall c c',
  status_from_u16 c = Some c' <-> c' = c /\ 100 <= c /\ c <= 999.
Proof. exact status_from_u16_spec. Qed.

Theorem C20_status_digits : forall c, 100 <= c -> c <= 999 ->
  exists d2 d1 d0, status_as_str c = [48 + d2; 48 + d1; 48 + d0]
    /\ 1 <= d2 /\ d2 <= 9 /\ d1 <= 9 /\ d0 <= 9 /\ c = 100 * d2 + 10 * d1 + d0.
Proof. exact status_as_str_digits. Qed.

Theorem C20_status_digits_injective : forall c c',
  100 <= c -> c <= 999 -> 100 <= c' -> c' <= 999 -> status_as_str c = status_as_str c' -> c = c'.
Proof. exact status_as_str_inj. Qed.

(* ---- non-vacuity / reading aids -------------------------------------------------------------- *)
Example C20_ascii_literals :
  b_Status = bs "Status: " /\ b_Custom = bs "Custom" /\ b_Location = bs "Location: "
  /\ b_colon_sp = bs ": " /\ b_sp = bs " " /\ SBUF_INIT = b_Status ++ [0; 0; 0] ++ b_sp
  /\ LOCATION = b_Location /\ CUSTOM = b_Custom.
Proof. vm_compute. repeat split; reflexivity. Qed.

(* a two-entry reason table for the examples *)
Local Notation tbl := (fun c : N => if c =? 200 then Some (bs "OK")
                                    else if c =? 307 then Some (bs "Temporary Redirect") else None).

(* the crate's own doc_response test vector (response.rs:118-127), into a Vec and into slices *)
Example C20_example_doc_response :
  let hs := [(bs "Content-Type", bs "text/plain; charset=utf-8");
             (bs "Etag", bs "TebWmVZhLynbmkSaxnwq"); (bs "Server", bs "fastcgi-server")] in
  let text := bs "Status: 200 OK
Content-Type: text/plain; charset=utf-8
Etag: TebWmVZhLynbmkSaxnwq
Server: fastcgi-server

" in
  write_headers tbl (mkW [] None) 200 hs = (mkW text None, Some 106)
  /\ write_headers tbl (mkW [1; 2] (Some 106)) 200 hs = (mkW ([1; 2] ++ text) (Some 0), Some 106)
  /\ write_headers tbl (mkW [] (Some 105)) 200 hs = (mkW (take 105 text) (Some 0), None)
  /\ write_headers tbl (mkW [] (Some 20)) 200 hs = (mkW (bs "Status: 200 OK
Conte") (Some 0), None)
  /\ write_headers tbl (mkW [] (Some 0)) 200 hs = (mkW [] (Some 0), None)
  /\ split_on 10 text = [bs "Status: 200 OK"; bs "Content-Type: text/plain; charset=utf-8";
                         bs "Etag: TebWmVZhLynbmkSaxnwq"; bs "Server: fastcgi-server"; []; []].
Proof. vm_compute. repeat split; reflexivity. Qed.

(* custom status, empty header list, empty name and value *)
Example C20_example_custom :
  write_headers tbl (mkW [] None) 999 [] = (mkW (bs "Status: 999 Custom

") None, Some 20)
  /\ write_headers tbl (mkW [] (Some 30)) 999 [([], [])] = (mkW (bs "Status: 999 Custom" ++ [10] ++ bs ": " ++ [10; 10]) (Some 7), Some 23)
  /\ status_from_u16 999 = Some 999 /\ status_from_u16 1000 = None /\ status_from_u16 99 = None.
Proof. vm_compute. repeat split; reflexivity. Qed.

Example C20_example_redirect :
  simple_redirect (mkW [] None) (bs "/example.html?foo=bar") = (mkW (bs "Location: /example.html?foo=bar

") None, Some 33)
  /\ simple_redirect (mkW [] (Some 12)) (bs "/") = (mkW (bs "Location: /
") (Some 0), None)
  /\ simple_redirect (mkW [] (Some 12)) [] = (mkW (bs "Location: " ++ [10; 10]) (Some 0), Some 12).
Proof. vm_compute. repeat split; reflexivity. Qed.
