(* Props/C12.v — Transport EOF or error at any point ends the connection cleanly.
   Only statements.  Model: Async/Conn.v.  (Termination/no-panic of the whole task for every fault
   position is added as its proof completes; until then it is decided by the correspondence check
   with EOF at every byte offset and a fault at every read / write call index.) *)
From FV Require Import Base.Bytes Gen.Generated Parser.StreamModel Async.Conn Async.ConnWrites.

(* write_all on the transport, for EVERY write script (faults included): either everything was
   written, or the call failed / the task stopped having written only a PREFIX of the bytes —
   nothing is written after a failed write by this call, and a failure is reported as an error *)
Theorem C12_write_all : forall fuel sel b w,
  match await_write_all fuel sel b w with
  | Ok (Some k) w' => (k = EK_WriteZero \/ k = EK_Transport) /\ ~ no_fault (wscript w) /\
                      (exists b1 b2, b = b1 ++ b2 /\ b2 <> [] /\ io_rel w w' b1)
  | Ok None w' => io_rel w w' b
  | Halt ORet w' => sel = true /\ stopped w' = true /\ (exists b1 b2, b = b1 ++ b2 /\ b2 <> [] /\ io_rel w w' b1)
  | Halt OFuel w' => (fuel <= length (wscript w) + length b)%nat /\ (exists b1 b2, b = b1 ++ b2 /\ io_rel w w' b1)
  | _ => False
  end.
Proof. exact await_write_all_spec. Qed.

(* the same for a handler's stream write: what reached the client before the failure is a prefix of
   the well-formed record sequence stream_records *)
Theorem C12_writer_prefix : forall fuel stype id data w,
  wspec false (stream_records stype id data) w (fuel < N.to_nat (len data / 65535) + 2)%nat
        (writer_write_all fuel stype id data w).
Proof. exact writer_write_all_spec. Qed.

Example C12_example :
  exists w', await_write_all 10 false [1; 2; 3; 4] (mkW [] [2; W_ERR] [] [] 0 1 0 false true []) = Ok (Some EK_Transport) w'
             /\ wlog w' = [1; 2].
Proof. eexists. split; reflexivity. Qed.
