(* Props/C12.v — Transport EOF or error at any point ends the connection cleanly.
   Only statements.  Model: Async/Conn.v.  No panic / no spin of the whole task is proved for every fault position
   and every handler; TERMINATION is proved under either of two conditions on handlers / transport and REFUTED
   without them (known findings F5/F6: a StreamWriter op waiting for Request.lock); proofs in Async/ConnTotal.v. *)
From FV Require Import Base.Bytes Gen.Generated Parser.ReqModel Parser.ReqTargets Parser.StreamModel Async.Conn Async.ConnWrites Async.ConnTotal Codec.Varint Codec.NV Codec.Vars Parser.ReqWire Parser.AbsStream Parser.StreamSpec Parser.StreamRefine Parser.StreamInv Async.ConnReads Async.LoopTargets Async.LoopProofs Async.LoopTargets2 Async.LoopProofs2 Async.ReadsWTargets Async.FrameTargets Async.FrameFaultTargets Async.FrameFaultProofs.

(* write_all on the transport, for EVERY write script (faults included): either everything was
   written, or the call failed / the task stopped having written only a PREFIX of the bytes —
   nothing is written after a failed write by this call, and a failure is reported as an error *)
Theorem C12_write_all : forall fuel sel b w,
  match await_write_all fuel sel b w with
  | Ok (Some k) w' => (k = EK_WriteZero \/ k = EK_Transport \/ k = EK_Aborted) /\ ~ no_fault (wscript w) /\
                      (exists b1 b2, b = b1 ++ b2 /\ b2 <> [] /\ io_rel w w' b1)
  | Ok None w' => io_rel w w' b
  | Halt ORet w' => sel = true /\ stopped w' = true /\ (exists b1 b2, b = b1 ++ b2 /\ b2 <> [] /\ io_rel w w' b1)
  | Halt OFuel w' => (fuel <= length (wscript w) + length b)%nat /\ (exists b1 b2, b = b1 ++ b2 /\ io_rel w w' b1)
  | _ => False
  end.
Proof. exact await_write_all_spec. Qed.

(* the same for a handler's stream write: what reached the client before the failure is a prefix of
   the well-formed record sequence stream_records *)
Theorem C12_writer_prefix : forall fuel stype id data w,
  wspec false (stream_records stype id data) w (fuel < N.to_nat (len data / 65535) + 2)%nat
        (writer_write_all fuel stype id data w).
Proof. exact writer_write_all_spec. Qed.

(* ---- the whole connection task, in three layers (the request's output lock, Request.lock, is what separates them) ----

   (i) For EVERY read script and write script (read errors, write errors, zero-length writes, spurious not-ready
   results at any call index), every client byte string and gating, every buffer size and every list of well-formed
   handler scripts, the task ends by RETURNING or by WAITING (suspended without a pending wake-up): neither a Rust
   panic site nor a loop bound of the model is ever reached — it never panics and never spins.  What it may wait for
   is a gated client, or (known findings F5/F6, see (iii)) the request's own output lock. *)
Theorem C12_never_panics_or_spins : forall (norm : bytes -> bytes) (maxc : N) scripts B w0,
  world_ok w0 -> scripts_ok true scripts -> B < SIZE_LIMIT - 8 ->
  exists w, run_loop norm maxc (nb w0 + 4) (new_parser B) scripts 0 w0 = (ORet, w) \/
            run_loop norm maxc (nb w0 + 4) (new_parser B) scripts 0 w0 = (ODeadlock, w).
Proof. exact run_loop_total. Qed.

(* handler scripts that select streams (set_stream) the role may reject: the only additional outcome
   is the handler's own panic on the rejected selection (documented: Request::set_stream panics) *)
Theorem C12_never_panics_or_spins_lax : forall (norm : bytes -> bytes) (maxc : N) scripts B w0,
  world_ok w0 -> scripts_ok false scripts -> B < SIZE_LIMIT - 8 ->
  exists w, run_loop norm maxc (nb w0 + 4) (new_parser B) scripts 0 w0 = (ORet, w) \/
            run_loop norm maxc (nb w0 + 4) (new_parser B) scripts 0 w0 = (ODeadlock, w) \/
            run_loop norm maxc (nb w0 + 4) (new_parser B) scripts 0 w0 = (OPanic 70, w).
Proof. exact run_loop_total_lax. Qed.

(* (ii-a) TERMINATION, first sufficient condition: the transport has no write fault (no zero-length write, no write
   error; read errors, EOF at any offset, not-ready results and partial writes anywhere are all allowed) and the
   handlers await the reads they start (every opcode but the abandoned poll, op 11).  Then every awaited operation
   returns with Request.lock released, no StreamWriter op ever finds it held, and: with an ungated client (all bytes
   available, then EOF) the task RETURNS; in general the only other outcome is waiting for a gated client. *)
Theorem C12_terminates_fault_free_awaiting_handlers : forall (norm : bytes -> bytes) (maxc : N) scripts B w0,
  world_ok w0 -> scripts_ok true scripts -> Forall no_abandoned_read scripts -> no_fault (wscript w0) ->
  B < SIZE_LIMIT - 8 -> ungated w0 ->
  exists w, run_loop norm maxc (nb w0 + 4) (new_parser B) scripts 0 w0 = (ORet, w).
Proof. exact run_loop_terminates_fault_free. Qed.

Theorem C12_total_fault_free_awaiting_handlers : forall (norm : bytes -> bytes) (maxc : N) scripts B w0,
  world_ok w0 -> scripts_ok true scripts -> Forall no_abandoned_read scripts -> no_fault (wscript w0) ->
  B < SIZE_LIMIT - 8 ->
  exists w, run_loop norm maxc (nb w0 + 4) (new_parser B) scripts 0 w0 = (ORet, w) \/
            (run_loop norm maxc (nb w0 + 4) (new_parser B) scripts 0 w0 = (ODeadlock, w) /\ ~ ungated w0).
Proof. exact run_loop_waits_fault_free. Qed.

(* (ii-b) TERMINATION, second sufficient condition: the handlers PROPAGATE I/O errors (prop_script: every read is
   `read(..).await?`, writes return their error; no op that observes an error and goes on) — for EVERY write script,
   faults at any call index included: a failed reply flush ends the handler, so no StreamWriter op runs with the
   lock held.  This is the handler class of the property's last clause. *)
Theorem C12_terminates_propagating_handlers : forall (norm : bytes -> bytes) (maxc : N) scripts B w0,
  world_ok w0 -> scripts_ok true scripts -> Forall prop_script scripts -> B < SIZE_LIMIT - 8 -> ungated w0 ->
  exists w, run_loop norm maxc (nb w0 + 4) (new_parser B) scripts 0 w0 = (ORet, w).
Proof. exact run_loop_terminates_propagating. Qed.

Theorem C12_total_propagating_handlers : forall (norm : bytes -> bytes) (maxc : N) scripts B w0,
  world_ok w0 -> scripts_ok true scripts -> Forall prop_script scripts -> B < SIZE_LIMIT - 8 ->
  exists w, run_loop norm maxc (nb w0 + 4) (new_parser B) scripts 0 w0 = (ORet, w) \/
            (run_loop norm maxc (nb w0 + 4) (new_parser B) scripts 0 w0 = (ODeadlock, w) /\ ~ ungated w0).
Proof. exact run_loop_waits_propagating. Qed.

(* (iii) WITHOUT such a condition termination is FALSE — of the model and of the crate (known finding F5; the harness
   hangs at the same place): a Responder request with a GetValues record before its Stdin, the transport fails the
   write of the GetValues reply inside the handler's first read ("keep lock even in the Err case": Request.lock stays
   held), the handler ignores that error, reads again and writes to stdout: the StreamWriter waits for the lock for
   ever although the client waits for nothing.  (F6 is the fault-free variant with an abandoned read, op 11:
   ex_f6_abandoned_read in Async/ConnTotal.v.) *)
Theorem C12_terminates_unrestricted_refuted :
  exists (w0 : world) (scripts : list (list N)) (B : N),
    world_ok w0 /\ scripts_ok true scripts /\ B < SIZE_LIMIT - 8 /\ ungated w0 /\
    fst (run_loop (fun b => b) 10 (nb w0 + 4) (new_parser B) scripts 0 w0) = ODeadlock.
Proof. exact run_loop_terminates_unrestricted_refuted. Qed.

(* non-vacuity of (ii-a) and (ii-b): concrete connections (two KeepConn requests, short reads, spurious wake-ups, a
   read error; a partial write / a zero-length write) satisfy the hypotheses *)
Example C12_terminates_examples :
  (exists w, run_loop (fun b => b) 10 (nb (ex_world 1 0 [3; 0; 5; R_ERR] [0; 1; 7]) + 4) (new_parser 0) [ex_script] 0
                      (ex_world 1 0 [3; 0; 5; R_ERR] [0; 1; 7]) = (ORet, w)) /\
  (exists w, run_loop (fun b => b) 10 (nb (ex_world 1 0 [3; 0; 5; R_ERR] [0; 1; W_ZERO]) + 4) (new_parser 0) [ex_prop_script] 0
                      (ex_world 1 0 [3; 0; 5; R_ERR] [0; 1; W_ZERO]) = (ORet, w)).
Proof. split; [exact ex_terminates|exact ex_terminates_propagating]. Qed.

Example C12_example :
  exists w', await_write_all 10 false [1; 2; 3; 4] (mkW [] [2; W_ERR] [] [] 0 1 0 false true []) = Ok (Some EK_Transport) w'
             /\ wlog w' = [1; 2].
Proof. eexists. split; reflexivity. Qed.

(* a transport write error whose io::ErrorKind is ConnectionAborted is reported with that kind *)
Example C12_example_aborted_kind :
  exists w', await_write_all 10 false [1; 2; 3; 4] (mkW [] [2; W_ERR_AB] [] [] 0 1 0 false true []) = Ok (Some EK_Aborted) w'
             /\ wlog w' = [1; 2].
Proof. eexists. split; reflexivity. Qed.

(* ==== pinned from the proof files (tools/write_props.py) ==== *)

(* 'no handler is invoked for a request whose preamble did not arrive completely': if everything the client
   will ever deliver (leftover included) is a PROPER prefix of a well-formed preamble — EOF, a transport error
   or a block anywhere inside it — parse_request never hands over to a handler, whatever the read and write
   patterns *)
Theorem C12_no_handler_for_partial_preamble :
  forall (norm : bytes -> bytes) (maxc : N) (fuel : nat) (B : N) (L : bytes) (w : world) 
    (pw : preamble) (pairs : list (bytes * bytes)) (missing : list N),
  B < SIZE_LIMIT - 8 ->
  bytes_ok L ->
  len L <= aligned_bufsize B ->
  world_ok w ->
  preamble_ok pw ->
  Forall pair_ok pairs ->
  nv_write_all pairs = Some (preamble_payload pw) ->
  Forall (pair_fits (aligned_bufsize B)) pairs ->
  preamble_fits (aligned_bufsize B) pw ->
  len (enc_rcds (preamble_rcds pw)) < SIZE_LIMIT ->
  missing <> [] ->
  (L ++ remaining w) ++ missing = enc_rcds (preamble_rcds pw) ->
  forall (s0 : sp) (w' : world),
  parse_request norm maxc fuel {| cap := aligned_bufsize B; held := L; st := Header |} [] w <>
  Ok (inl s0) w'.
Proof. exact no_handler_for_partial. Qed.

(* between requests a transport EOF ends the connection quietly (ConnectionReset), a read error is returned as
   it is, and the read happens only after the replies were written *)
Theorem C12_parse_request_eof :
  forall (norm : bytes -> bytes) (maxc : N) (f : nat) (p : parser) (new : bytes) 
    (w : world) (p' : parser) (out : bytes),
  parse norm maxc p new = POk p' false out ->
  match await_write_all (io_fuel w (len out)) true out w with
  | Ok (Some k) w1 => parse_request norm maxc (S f) p new w = Ok (inr k) w1
  | Ok None w1 =>
      wlog w1 = wlog w ++ out /\
      remaining w1 = remaining w /\
      parse_request norm maxc (S f) p new w =
      match await_read (io_fuel w1 0) true (input_space p') w1 with
      | Ok (inl []) w'' => Ok (inr EK_Reset) w''
      | Ok (inl ((_ :: _) as b)) w'' => parse_request norm maxc f p' b w''
      | Ok (inr k) w'' => Ok (inr k) w''
      | Halt o w'' => Halt o w''
      end
  | Halt o w1 => parse_request norm maxc (S f) p new w = Halt o w1 /\ o <> ODeadlock
  end.
Proof. exact parse_request_read_after_flush. Qed.

(* 'an unexpected-EOF error rather than a successful short or empty read': a successful empty read into a non-
   empty buffer happens only at the stream's end (terminator seen), never because the transport ran dry *)
Theorem C12_empty_read_means_end_of_stream :
  forall (maxc : N) (fuel : nat) (c : N) (r : rstate) (w : world) (b : bytes) (r' : rstate) (w' : world),
  pinv (rsp r) ->
  bytes_ok (remaining w) ->
  (length (wscript w) + length (remaining w) + 2 <= fuel)%nat ->
  0 < c ->
  poll_input maxc fuel (Some c) r w = (PReady (inl (0, b)), r', w') ->
  b = [] /\
  eos (abs (rsp r')) /\
  stream_buffer (rsp r') = [] /\ K (abs (rsp r)) (remaining w) = K (abs (rsp r')) (remaining w').
Proof. exact poll_input_zero_is_eof. Qed.

(* the full account of one poll (error cases: UnexpectedEof only with no client byte left or a full buffer; the
   transport's own error; a sticky parser error) *)
Theorem C12_poll_input_cases :
  forall (maxc : N) (fuel : nat) (dest : option N) (r : rstate) (w : world)
    (p : Conn.pres (N * bytes + N)) (r' : rstate) (w' : world),
  pinv (rsp r) ->
  bytes_ok (remaining w) ->
  (length (wscript w) + length (remaining w) + 2 <= fuel)%nat ->
  poll_input maxc fuel dest r w = (p, r', w') ->
  exists dl : bytes,
    acct maxc [] r w dl r' w' /\
    pi_case maxc dest dl r w p r' w' /\
    rwriteable r' = rwriteable r || poll_parses dest r && is_inl p && is_final_stream r.
Proof. exact poll_input_reads. Qed.

(* 'for a handler that propagates I/O errors, nothing is written after a failed write': for EVERY connection
   (any client bytes, read script, buffer, number of requests) whose handlers propagate errors (every read is
   `read(..).await?`, writes return their error), if the first fault of the write script (a zero-length write
   or a write error) is entry number |pre|, then either that entry is never reached or it is the LAST write
   call the task ever makes: the rest of the script is untouched, so no byte is accepted after the failed call *)
Theorem C12_nothing_after_failed_write :
  forall (norm : bytes -> bytes) (maxc : N) (fuel : nat) (p : parser) (scripts : list (list N))
    (served : nat) (w : world) (pre : list N) (k : N) (post : list N),
  Forall prop_script scripts ->
  wscript w = pre ++ k :: post ->
  no_fault pre ->
  plain_fault k ->
  let w' := snd (run_loop norm maxc fuel p scripts served w) in
  (exists s : list N, wscript w' = s ++ k :: post) \/ wscript w' = post.
Proof. exact nothing_after_failed_write. Qed.

(* '... and what was written before is a prefix of a well-formed record sequence': whatever the transport's
   write script - accept sizes, Pending, and a first fault (zero-length write or write error) at ANY write call
   -, for every client, buffer size, fuel and handler scripts that propagate I/O errors, the transport log of
   Token::run is at every end of the run a prefix of a byte string that decodes completely into records
   (framed, Async/FrameTargets.v; the fault-free case is C10_connection_framing) *)
Theorem C12_connection_framing_under_faults :
  forall (norm : bytes -> bytes) (maxc : N) (fuel : nat) (B : N) (scripts : list (list N)) 
    (w0 : world) (pre : list N) (k : N) (post : list N),
  B < SIZE_LIMIT - 8 ->
  world_ok w0 ->
  wlog w0 = [] ->
  wscript w0 = pre ++ k :: post ->
  no_fault pre ->
  plain_fault k ->
  scripts_ok false scripts ->
  Forall writes_known scripts ->
  Forall prop_script scripts ->
  let '(_, w') := run_loop norm maxc fuel (new_parser B) scripts 0 w0 in framed (wlog w').
Proof. exact connection_framing_faults. Qed.

