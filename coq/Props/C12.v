(* Props/C12.v — Transport EOF or error at any point ends the connection cleanly.
   Only statements.  Model: Async/Conn.v.  (Termination/no-panic of the whole task for every fault
   position is added as its proof completes; until then it is decided by the correspondence check
   with EOF at every byte offset and a fault at every read / write call index.) *)
From FV Require Import Base.Bytes Gen.Generated Parser.ReqModel Parser.ReqTargets Parser.StreamModel Async.Conn Async.ConnWrites Async.ConnTotal.

(* write_all on the transport, for EVERY write script (faults included): either everything was
   written, or the call failed / the task stopped having written only a PREFIX of the bytes —
   nothing is written after a failed write by this call, and a failure is reported as an error *)
Theorem C12_write_all : forall fuel sel b w,
  match await_write_all fuel sel b w with
  | Ok (Some k) w' => (k = EK_WriteZero \/ k = EK_Transport \/ k = EK_Aborted) /\ ~ no_fault (wscript w) /\
                      (exists b1 b2, b = b1 ++ b2 /\ b2 <> [] /\ io_rel w w' b1)
  | Ok None w' => io_rel w w' b
  | Halt ORet w' => sel = true /\ stopped w' = true /\ (exists b1 b2, b = b1 ++ b2 /\ b2 <> [] /\ io_rel w w' b1)
  | Halt OFuel w' => (fuel <= length (wscript w) + length b)%nat /\ (exists b1 b2, b = b1 ++ b2 /\ io_rel w w' b1)
  | _ => False
  end.
Proof. exact await_write_all_spec. Qed.

(* the same for a handler's stream write: what reached the client before the failure is a prefix of
   the well-formed record sequence stream_records *)
Theorem C12_writer_prefix : forall fuel stype id data w,
  wspec false (stream_records stype id data) w (fuel < N.to_nat (len data / 65535) + 2)%nat
        (writer_write_all fuel stype id data w).
Proof. exact writer_write_all_spec. Qed.

(* the connection task terminates without panicking or spinning: for EVERY read script and write script
   (read errors, write errors, zero-length writes, spurious not-ready results at any call index), every
   client byte string cut off at any offset (an ungated client: all bytes, then EOF), every buffer size
   and every list of well-formed handler scripts, the model returns — neither a Rust panic site nor a
   loop bound of the model is ever reached *)
Theorem C12_terminates : forall (norm : bytes -> bytes) (maxc : N) scripts B w0,
  world_ok w0 -> scripts_ok true scripts -> B < SIZE_LIMIT - 8 -> ungated w0 ->
  exists w, run_loop norm maxc (nb w0 + 4) (new_parser B) scripts 0 w0 = (ORet, w).
Proof. exact run_loop_terminates. Qed.

(* with a gated (closed-loop) client the only other outcome is the task suspended on a read that the
   client does not satisfy; still no panic, no spin *)
Theorem C12_total : forall (norm : bytes -> bytes) (maxc : N) scripts B w0,
  world_ok w0 -> scripts_ok true scripts -> B < SIZE_LIMIT - 8 ->
  exists w, run_loop norm maxc (nb w0 + 4) (new_parser B) scripts 0 w0 = (ORet, w) \/
            (run_loop norm maxc (nb w0 + 4) (new_parser B) scripts 0 w0 = (ODeadlock, w) /\ ~ ungated w0).
Proof. exact run_loop_total. Qed.

(* handler scripts that select streams (set_stream) the role may reject: the only additional outcome
   is the handler's own panic on the rejected selection (documented: Request::set_stream panics) *)
Theorem C12_total_lax : forall (norm : bytes -> bytes) (maxc : N) scripts B w0,
  world_ok w0 -> scripts_ok false scripts -> B < SIZE_LIMIT - 8 ->
  exists w, run_loop norm maxc (nb w0 + 4) (new_parser B) scripts 0 w0 = (ORet, w) \/
            (run_loop norm maxc (nb w0 + 4) (new_parser B) scripts 0 w0 = (ODeadlock, w) /\ ~ ungated w0) \/
            run_loop norm maxc (nb w0 + 4) (new_parser B) scripts 0 w0 = (OPanic 70, w).
Proof. exact run_loop_total_lax. Qed.

Example C12_example :
  exists w', await_write_all 10 false [1; 2; 3; 4] (mkW [] [2; W_ERR] [] [] 0 1 0 false true []) = Ok (Some EK_Transport) w'
             /\ wlog w' = [1; 2].
Proof. eexists. split; reflexivity. Qed.

(* a transport write error whose io::ErrorKind is ConnectionAborted is reported with that kind *)
Example C12_example_aborted_kind :
  exists w', await_write_all 10 false [1; 2; 3; 4] (mkW [] [2; W_ERR_AB] [] [] 0 1 0 false true []) = Ok (Some EK_Aborted) w'
             /\ wlog w' = [1; 2].
Proof. eexists. split; reflexivity. Qed.
