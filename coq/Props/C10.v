(* Props/C10.v — Output records are complete, never interleaved, carry exactly the written bytes.
   Only statements.  Model: Async/Conn.v (StreamWriter::poll_write driven by write_all = writer_write_all /
   write_slices; Request::poll_output), Async/ConnWrites.v (vocabulary: stream_records, chunks, rec_of, io_rel).
   Several writers sharing the lock: Async/Writer.v, proofs Async/WriterProofs.v (second part of this file). *)
From FV Require Import Base.Bytes Gen.Generated Codec.Header Parser.StreamModel Parser.AbsStream Async.Conn Async.ConnWrites Async.Writer Async.WriterTargets Async.WriterProofs Parser.ReqWire Parser.ReqTargets Async.ConnTotal Async.ConnReads Async.ReadsWTargets Async.FrameTargets Async.FrameProofs.

(* however the transport splits or delays the vectored write of one record (any accept sizes, Pending at
   any call, native vectored write or first-slice fallback), the bytes reaching the client are exactly
   header ++ payload ++ padding, in order; on a failed write a proper prefix *)
Theorem C10_any_split : forall fuel slices w,
  wpost false (concat slices) w (write_slices fuel slices w).
Proof. exact write_slices_post. Qed.

(* a successful write_all of [data] contributes exactly the records of its <= 65535-byte chunks,
   nothing else; failure leaves a proper prefix; the model's loop bound is never the reason to stop *)
Theorem C10_exact : forall fuel stype id data w,
  wspec false (stream_records stype id data) w (fuel < N.to_nat (len data / 65535) + 2)%nat
        (writer_write_all fuel stype id data w).
Proof. exact writer_write_all_spec. Qed.

(* each of those records is complete and well-formed: the writer's stream type and the request's id,
   n payload bytes (n <= 65535), padding < 8 making the body a multiple of 8 *)
Theorem C10_record_wf : forall stype id c,
  known_type stype = true -> id < 65536 -> len c <= 65535 ->
  let pad := auto_padding (len c) in
  let rec := rec_of stype id c in
  hdr_decode (take 8 rec) = HOk stype id (len c) pad /\ pad < 8 /\ (len c + pad) mod 8 = 0 /\
  len rec = 8 + len c + pad /\ len rec mod 8 = 0 /\
  take (len c) (drop 8 rec) = c /\ drop (8 + len c) rec = zeros pad.
Proof. exact rec_of_wf. Qed.

(* the payloads are exactly the written bytes: every byte once, in order; chunks are 1..65535 bytes *)
Theorem C10_payload_is_data : forall data, concat (chunks data) = data.
Proof. exact chunks_concat. Qed.
Theorem C10_chunk_sizes : forall data, Forall (fun c => 0 < len c <= 65535) (chunks data).
Proof. exact chunks_sizes. Qed.

(* decoding the log written by one write_all gives back exactly those records and those bytes *)
Theorem C10_decodes_back : forall stype id data, known_type stype = true -> id < 65536 ->
  let '(rs, rest) := parse_records (length (chunks data)) (stream_records stype id data) in
  rest = [] /\ Forall (fun r => fst r = (stype, id)) rs /\ concat (map snd rs) = data.
Proof. exact parse_stream_records_exact. Qed.

(* the parser's own replies obey the same discipline: poll_output appends a prefix of the pending
   output, removes exactly that prefix, holds the lock exactly while bytes remain unsent *)
Theorem C10_poll_output : forall fuel r w p r' w',
  poll_output fuel r w = (p, r', w') ->
  let out := output_buffer (rsp r) in
  exists n, n <= len out /\ wlog w' = wlog w ++ take n out /\ same_but_io w w' /\
    ReqDrive.suffix (wscript w') (wscript w) /\ output_buffer (rsp r') = drop n out /\
    sp_same_but_output (rsp r) (rsp r') /\ stream_buffer (rsp r') = stream_buffer (rsp r) /\
    raw_bytes (rsp r') = raw_bytes (rsp r) /\ rwriteable r' = rwriteable r /\ (RI (rsp r) -> RI (rsp r')) /\
    match p with
    | PReady (inl _) => n = len out /\ output_buffer (rsp r') = [] /\ rlock r' = false
    | PReady (inr k) => (k = 99 /\ (fuel <= length (wscript w) + 1)%nat) \/
                        (n < len out /\ rlock r' = true /\ (k = EK_WriteZero \/ k = EK_Transport \/ k = EK_Aborted) /\ ~ no_fault (wscript w))
    | PWake => n < len out /\ rlock r' = true
    | PBlock => False
    end.
Proof. exact poll_output_spec. Qed.

Example C10_example :
  stream_records RT_Stdout 1 [104; 105] = [1; 6; 0; 1; 0; 2; 6; 0; 104; 105; 0; 0; 0; 0; 0; 0].
Proof. reflexivity. Qed.

(* ==== pinned from the proof files (tools/write_props.py) ==== *)

(* ---- several writers + the request's own reply flushing on one connection (Async/Writer.v) ----  MAIN: for
   EVERY poll order, number of writers, data, transport write script and client input: the log is a
   concatenation of COMPLETE lock tenures (one whole record of one writer, or one whole flush of parser
   replies) followed by the part of the current holder's tenure; per writer, payloads in log order ++ record in
   progress ++ unwritten data = the data it was given; a writer not holding the lock has written nothing of its
   record in progress *)
Theorem C10_writers_exclusive :
  forall (maxc : N) (fuel : nat) (order : list N) (rr idle : N) (s0 : wsys) (errd : bool)
    (acc : list (list N)),
  fresh s0 ->
  RI (rsp (ws_req s0)) ->
  let id := ReqModel.r_id (sreq (rsp (ws_req s0))) in
  let ws0 := ws_writers s0 in
  let s := fst (fst (wsteps maxc fuel order rr idle s0 errd acc)) in
  exists (ts : list tenure) (part : bytes) (cur : N -> bytes) (written : N -> N),
    wlog (ws_world s) = wlog (ws_world s0) ++ concat (map (tenure_bytes ws0 id) ts) ++ part /\
    Forall (tenure_ok (len ws0)) ts /\
    length (ws_writers s) = length ws0 /\
    ReqModel.r_id (sreq (rsp (ws_req s))) = id /\
    (forall (i : N) (w0 w : wr),
     nth_error ws0 (N.to_nat i) = Some w0 ->
     nth_error (ws_writers s) (N.to_nat i) = Some w ->
     wr_type w = wr_type w0 /\
     wr_data w0 = concat (chunks_of i ts) ++ cur i ++ wr_data w /\
     (wr_started w = false -> cur i = [] /\ wr_cur w = []) /\
     (wr_started w = true ->
      0 < len (cur i) <= 65535 /\
      written i <= len (rec_of (wr_type w0) id (cur i)) /\
      concat (wr_cur w) = drop (written i) (rec_of (wr_type w0) id (cur i)) /\
      (~ holds (ws_holder s) i -> written i = 0)) /\
     (wr_done w = true -> wr_started w = false -> wr_data w = [])) /\
    match ws_holder s with
    | HNone => part = []
    | HWriter i =>
        exists w : wr,
          nth_error (ws_writers s) (N.to_nat i) = Some w /\
          wr_started w = true /\ part = take (written i) (rec_of (wtype ws0 i) id (cur i))
    | HRequest => rlock (ws_req s) = true
    end.
Proof. exact writers_exclusive. Qed.

(* all writers done, none failed: the log is exactly a sequence of complete tenures carrying every writer's
   data *)
Theorem C10_writers_complete :
  forall (maxc : N) (fuel : nat) (order : list N) (rr idle : N) (s0 : wsys) (errd : bool)
    (acc : list (list N)),
  fresh s0 ->
  RI (rsp (ws_req s0)) ->
  let id := ReqModel.r_id (sreq (rsp (ws_req s0))) in
  let ws0 := ws_writers s0 in
  let
  '(s, errd', _) := wsteps maxc fuel order rr idle s0 errd acc in
   forallb wr_done (ws_writers s) = true ->
   errd' = false ->
   ws_holder s <> HRequest ->
   exists ts : list tenure,
     wlog (ws_world s) = wlog (ws_world s0) ++ concat (map (tenure_bytes ws0 id) ts) /\
     Forall (tenure_ok (len ws0)) ts /\
     (forall (i : N) (w0 : wr),
      nth_error ws0 (N.to_nat i) = Some w0 -> wr_data w0 = concat (chunks_of i ts)).
Proof. exact writers_complete. Qed.

(* a writer polled while someone else holds the lock changes nothing *)
Theorem C10_writer_waits :
  forall (fuel : nat) (id i : N) (w : wr) (h : holder) (wd : world),
  wr_started w = true ->
  wr_done w = false -> h <> HNone -> h <> HWriter i -> poll_writer fuel id i w h wd = (0, w, h, wd).
Proof. exact writer_waits. Qed.

(* the request's flush polled while a writer holds the lock changes nothing *)
Theorem C10_request_waits :
  forall (fuel : nat) (r : rstate) (i : N) (w : world),
  (0 < fuel)%nat ->
  output_buffer (rsp r) <> [] -> poll_output_l fuel r (HWriter i) w = (PWake, r, HWriter i, w).
Proof. exact request_waits_partial. Qed.

(* ---- the WHOLE connection (Async/Conn.v: Token::run with parse_request, handler scripts of all eleven
   opcodes - reads polled once and abandoned included -, Request::close) ----  on a transport without write
   faults (any accept sizes, any Pending pattern), for EVERY client (any bytes, segmentation, gating), buffer
   size and fuel: whatever the outcome (returned, waiting, out of fuel), the transport log is a PREFIX of a
   byte string that decodes completely into records (framed: ConnWrites.parse_records - version 1, known type,
   lengths as announced); and it decodes completely (whole) when the task returns, no shutdown was requested
   and no script abandons a read.  Management replies, stream records and epilogues never interleave, not even
   in the F6 scenario (the writer waits, it does not write into the unfinished reply) *)
Theorem C10_connection_framing :
  forall (norm : bytes -> bytes) (maxc : N) (fuel : nat) (B : N) (scripts : list (list N)) (w0 : world),
  B < SIZE_LIMIT - 8 ->
  world_ok w0 ->
  wlog w0 = [] ->
  no_fault (wscript w0) ->
  scripts_ok false scripts ->
  Forall writes_known scripts ->
  let
  '(o, w') := run_loop norm maxc fuel (ReqModel.new_parser B) scripts 0 w0 in
   framed (wlog w') /\
   (o = ORet ->
    stop_at w0 = 0 -> stopped w0 = false -> Forall no_abandoned_read scripts -> whole (wlog w')).
Proof. exact connection_framing. Qed.

(* non-vacuity: a run that returns with five records, the first a GetValuesResult *)
Theorem C10_framing_example_whole :
  let r :=
    run_loop (fun b : bytes => b) 10 (nb (PeerProofs2.ex2_w 1) + 4) (ReqModel.new_parser 64)
      PeerProofs2.ex2_scripts 0 (PeerProofs2.ex2_w 1) in
  fst r = ORet /\
  whole (wlog (snd r)) /\
  len (wlog (snd r)) = 80 /\
  map (fun x : N * N * list N => (fst (fst x), snd (fst x), len (snd x)))
    (fst (parse_records (length (wlog (snd r))) (wlog (snd r)))) =
  [(RT_GetValuesResult, 0, 18); (RT_Stdout, 1, 2); (RT_Stdout, 1, 0); (RT_Stderr, 1, 0);
   (RT_EndRequest, 1, 8)].
Proof. exact exf_returns_whole. Qed.

(* ... and the F6 run: ODeadlock with the log [1; 10; 0] - three bytes of the reply header: framed, not whole *)
Theorem C10_framing_example_f6 :
  let r :=
    run_loop (fun b : bytes => b) 10 (nb PeerProofs2.ex2p_w + 4) (ReqModel.new_parser 64)
      (PeerProofs2.ex2p_scripts 11) 0 PeerProofs2.ex2p_w in
  fst r = ODeadlock /\
  wlog (snd r) = [1; 10; 0] /\
  wlog (snd r) = take 3 (Vars.write_response 1 10) /\ framed (wlog (snd r)) /\ ~ whole (wlog (snd r)).
Proof. exact exf6_framed_not_whole. Qed.

