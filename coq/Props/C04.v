(* Props/C04.v — Each management or rejectable record gets exactly one correct reply, in order.
   Only statements.  Request parser part (stream parser part is added as its proofs complete).
   The reply function [reply_for] (Parser/ReqWire.v) is the specification: record type, request id,
   protocol status and body per the FastCGI specification; encodings are those of C17. *)
From FV Require Import Base.Bytes Gen.Generated Codec.Varint Codec.NV Codec.Header Codec.Bodies Codec.Vars Parser.ReqModel Parser.ReqParamsSpec Parser.ReqWire Parser.ReqTargets Parser.ReqRecords Parser.ReqFinal Parser.StreamModel Parser.AbsStream Parser.StreamSpec Parser.StreamRefine Parser.StreamInv Parser.StreamFinal.

(* one complete record, at a record boundary: consumed entirely, exactly the owed reply emitted,
   state moved as the phase machine [rec_step] prescribes (up to [settle]) — for every record *)
Theorem C04_req_record : forall (norm : bytes -> bytes) (maxc : N) s r ph,
  state_ok s -> state_small s -> boundary_phase (ReqRecords.settle s) = Some ph -> rcd_ok r ->
  match rec_step norm (ReqRecords.settle s) r with
  | RNext s' =>
      exists s'', drive_all norm maxc s (enc_rcd r) = DOk [] s'' (reply_for maxc ph r) /\
                   ReqRecords.settle s'' = s' /\ state_ok s'' /\
                   sbuf s'' <= sbuf s + len (rbody r) /\ (~ gv_empty r -> s'' = s')
  | RFatal e => exists rest, drive_all norm maxc s (enc_rcd r) = DOk rest (Fatal e) []
  end.
Proof. intros norm maxc. exact (rec_step_settle norm maxc (F_S1 norm) (F_S2 norm)). Qed.

(* any sequence of records that the phase machine accepts (a [run]): the bytes emitted are the
   concatenation of the owed replies in arrival order, nothing else *)
Theorem C04_req_sequence : forall (norm : bytes -> bytes) (maxc : N) fits s0 rs s2 o,
  run norm maxc fits s0 rs s2 o -> rs <> [] ->
  forall s, state_ok s -> ReqRecords.settle s = s0 -> sbuf s + len (enc_rcds rs) < SIZE_LIMIT ->
  exists s'', drive_all norm maxc s (enc_rcds rs) = DOk [] s'' o /\ ReqRecords.settle s'' = s2 /\ state_ok s'' /\
               sbuf s'' <= sbuf s + len (enc_rcds rs) /\ (is_final s2 = true -> s'' = s2).
Proof. intros norm maxc. exact (run_drive norm maxc (F_S1 norm) (F_S2 norm) (F_A_ne norm maxc)). Qed.

(* and for a whole well-formed preamble under every chunking: output = preamble_replies (C01_exact);
   restated here for the output alone *)
Theorem C04_req_preamble_replies : forall (norm : bytes -> bytes) (maxc : N) B w pairs trailing sched,
  B < SIZE_LIMIT - 8 ->
  preamble_ok w -> Forall pair_ok pairs -> nv_write_all pairs = Some (preamble_payload w) ->
  Forall (pair_fits (aligned_bufsize B)) pairs -> preamble_fits (aligned_bufsize B) w ->
  bytes_ok trailing -> len (enc_rcds (preamble_rcds w) ++ trailing) < SIZE_LIMIT ->
  exists p unfed, run_schedule norm maxc (new_parser B) (enc_rcds (preamble_rcds w) ++ trailing) sched
                    = SOk p true unfed (preamble_replies maxc w).
Proof.
  intros norm maxc B w pairs trailing sched H1 H2 H3 H4 H5 H6 H7 H8.
  destruct (F_preamble_exact norm maxc B w pairs trailing sched H1 H2 H3 H4 H5 H6 H7 H8) as [p [u [E _]]].
  exists p, u. exact E.
Qed.

(* the exact-state form of the single-record statement is false for one record shape only
   (empty, unpadded GetValues): witness kept visible *)
Theorem C04_req_record_exact_refuted : ~ rec_step_stmt (fun b => b) 5.
Proof. exact rec_step_stmt_counterexample. Qed.

Example C04_example :
  reply_for 5 Idle (mkRcd 77 3 [1; 2] []) = [1; 11; 0; 3; 0; 8; 0; 0; 77; 0; 0; 0; 0; 0; 0; 0]
  /\ reply_for 5 (InParams 1) (mkRcd RT_BeginRequest 2 [0; 1; 0; 0; 0; 0; 0; 0] []) = [1; 3; 0; 2; 0; 8; 0; 0; 0; 0; 0; 0; 1; 0; 0; 0].
Proof. split; reflexivity. Qed.

(* ==== pinned from the proof files (tools/write_props.py) ==== *)

(* ---- stream parser ----  for ARBITRARY bytes and every legal schedule: emitted ++ pending ++ still-owed =
   the reply specification R of the bytes fed: one reply per reply-owing record, in order, none lost, none
   duplicated *)
Theorem C04_stream_any_bytes :
  forall (maxc : N) (p0 : sp) (ops : list cop) (u : bytes),
  sp_inv p0 ->
  csched_legal maxc p0 ops ->
  let pf := cfinal maxc p0 ops in
  cemitted maxc p0 ops ++ output_buffer pf ++ replies_coming maxc pf u =
  output_buffer p0 ++ replies_coming maxc p0 (cfed ops ++ u).
Proof. exact C04_stream. Qed.

(* the reply specification read record by record (unknown type -> UnknownType; GetValues with a non-empty body
   -> GetValuesResult; BeginRequest for another id -> EndRequest CantMpxConn; nothing else owes a reply) *)
Theorem C04_replies_of_records :
  forall (maxc id : N) (st : sstate) (rs : list rcd) (t : list N),
  Forall rcd_ok rs ->
  RA maxc id st 0 0 (enc_rcds rs ++ t) =
  replies_rcds maxc id rs ++ (if replies_open maxc id rs then RA maxc id SSkip 0 0 t else []).
Proof. exact RA_rcds. Qed.

(* MAIN: for a converted parser over a wire that continues with records rs: everything emitted and pending is a
   prefix of the replies owed for rs, and all of them once nothing is left to parse *)
Theorem C04_stream_records :
  forall (maxc : N) (rp : parser) (r : req) (sp0 : sp) (rs : list rcd) (t : list N) 
    (ops : list cop) (u : list N),
  parser_ok rp ->
  st rp = Done r ->
  into_stream_parser rp = inl sp0 ->
  Forall rcd_ok rs ->
  held rp ++ cfed ops ++ u = enc_rcds rs ++ t ->
  csched_legal maxc sp0 ops ->
  let pf := cfinal maxc sp0 ops in
  let owed :=
    replies_rcds maxc (r_id r) rs ++
    (if replies_open maxc (r_id r) rs then RA maxc (r_id r) SSkip 0 0 t else []) in
  cemitted maxc sp0 ops ++ output_buffer pf ++ replies_coming maxc pf u = owed /\
  (raw_bytes pf ++ u = [] -> cemitted maxc sp0 ops ++ output_buffer pf = owed).
Proof. exact C04_stream_rcds. Qed.

(* ... and when the wire consists of whole records only *)
Theorem C04_stream_records_exact :
  forall (maxc : N) (rp : parser) (r : req) (sp0 : sp) (rs : list rcd) (t : list N) 
    (ops : list cop) (u : list N),
  parser_ok rp ->
  st rp = Done r ->
  into_stream_parser rp = inl sp0 ->
  Forall rcd_ok rs ->
  len t < HEADER_LEN ->
  held rp ++ cfed ops ++ u = enc_rcds rs ++ t ->
  csched_legal maxc sp0 ops ->
  let pf := cfinal maxc sp0 ops in
  cemitted maxc sp0 ops ++ output_buffer pf ++ replies_coming maxc pf u = replies_rcds maxc (r_id r) rs /\
  (raw_bytes pf ++ u = [] -> cemitted maxc sp0 ops ++ output_buffer pf = replies_rcds maxc (r_id r) rs).
Proof. exact C04_stream_rcds_exact. Qed.

