(* Props/C03.v — Parsers are total and chunking-invariant on arbitrary, hostile input.
   Only statements.  Request parser: Parser/ReqModel.v (src/parser/request.rs).
   Stream parser: see the section at the end (added as its proofs complete). *)
From FV Require Import Base.Bytes Gen.Generated Codec.Varint Codec.NV Codec.Header Codec.Bodies Codec.Vars Parser.ReqModel Parser.ReqParamsSpec Parser.ReqWire Parser.ReqTargets Parser.ReqDrive Parser.ReqFinal Parser.StreamModel Parser.AbsStream Parser.StreamSpec Parser.StreamRefine Parser.StreamInv Parser.StreamFinal.

(* ---- request parser ---- *)

(* every call returns: no panic, no exhausted loop bound, invariant kept; the bytes still held are
   an unread suffix of what was held plus what was fed — for ANY bytes *)
Theorem C03_req_call_total : forall (norm : bytes -> bytes) (maxc : N) p new,
  parser_ok p -> bytes_ok new -> len new <= input_space p ->
  exists p' d o, parse norm maxc p new = POk p' d o /\ parser_ok p' /\ cap p' = cap p /\ bytes_ok o /\
                 (exists c, held p ++ new = c ++ held p').
Proof. exact F_parse_total. Qed.

(* every read schedule over every byte string runs to an answer; an unfinished run has fed everything *)
Theorem C03_req_total : forall (norm : bytes -> bytes) (maxc : N) B wire sched,
  B < SIZE_LIMIT - 8 -> bytes_ok wire -> len wire < SIZE_LIMIT ->
  exists p d u o, run_schedule norm maxc (new_parser B) wire sched = SOk p d u o /\ parser_ok p /\
                  (d = false -> u = []) /\ (d = true <-> is_final (st p) = true) /\
                  (exists c, wire = c ++ held p ++ u).
Proof. exact F_sched_total. Qed.

(* chunking invariance: any two read schedules of the same bytes agree on finished/unfinished, on
   the bytes emitted toward the client, on the unread remainder, and on the outcome — the parsed
   request or the specific fatal error, StuckOnInput included (states are equal when finished, and
   equal up to the internal 'about to leave an empty record' normalisation [settle] otherwise) *)
Theorem C03_req_chunk_invariant : forall (norm : bytes -> bytes) (maxc : N) B wire s1 s2 p1 d1 u1 o1 p2 d2 u2 o2,
  B < SIZE_LIMIT - 8 -> bytes_ok wire -> len wire < SIZE_LIMIT ->
  run_schedule norm maxc (new_parser B) wire s1 = SOk p1 d1 u1 o1 ->
  run_schedule norm maxc (new_parser B) wire s2 = SOk p2 d2 u2 o2 ->
  d1 = d2 /\ ReqDrive.settle (st p1) = ReqDrive.settle (st p2) /\ (d1 = true -> st p1 = st p2) /\
  o1 = o2 /\ held p1 ++ u1 = held p2 ++ u2.
Proof. intros norm maxc. exact (sched_invariant' norm maxc (F_S1 norm) (F_S2 norm) (F_S3 norm)). Qed.

(* the exact formulation with plain state equality is false: kept visible with its witness
   (an empty, unpadded GetValues record read in one piece vs. followed by a 0-byte call) *)
Theorem C03_req_chunk_invariant_exact_refuted : ~ sched_invariant_stmt (fun b => b) 10.
Proof. exact sched_invariant_stmt_false. Qed.

(* the state machine itself: exact additivity of the drive loop over d1 ++ d2 (d2 non-empty) *)
Theorem C03_req_drive_additive : forall (norm : bytes -> bytes) (maxc : N) s d1 d2,
  d2 <> [] -> state_ok s -> bytes_ok d1 -> bytes_ok d2 -> len (d1 ++ d2) < SIZE_LIMIT ->
  drive_all norm maxc s (d1 ++ d2) =
    match drive_all norm maxc s d1 with
    | DOk r1 s1 o1 => match drive_all norm maxc s1 (r1 ++ d2) with
                      | DOk r2 s2 o2 => DOk r2 s2 (o1 ++ o2) | x => x end
    | x => x
    end.
Proof. intros norm maxc. exact (drive_additive' norm maxc (F_S1 norm) (F_S3 norm)). Qed.

(* a fatal error or a finished request is sticky: every later call reports done again, emits
   nothing and leaves the result untouched (into_request keeps returning the same thing) *)
Theorem C03_req_sticky : forall (norm : bytes -> bytes) (maxc : N) p new,
  parser_ok p -> is_final (st p) = true -> bytes_ok new -> len new <= input_space p ->
  parse norm maxc p new = POk (mkParser (cap p) (held p ++ new) (st p)) true [].
Proof. exact F_parse_sticky. Qed.

(* conversions at non-final states return Interrupted (never panic): by definition of the model,
   into_request / into_stream_parser are total functions; shown here for into_request *)
Theorem C03_req_conversion_nonfinal : forall p, is_final (st p) = false -> into_request p = inr EInterrupted.
Proof. intros p H. unfold into_request. destruct (st p); try reflexivity; discriminate. Qed.

Example C03_example :
  run_schedule (fun b => b) 3 (new_parser 24) [2; 1; 0; 0; 0; 0; 0; 0; 9] [1; 0; 3] =
    SOk (mkParser 24 [2; 1; 0; 0; 0; 0; 0; 0; 9] (Fatal (EUnknownVersion 2))) true [] [].
Proof. vm_compute. reflexivity. Qed.

(* ==== pinned from the proof files (tools/write_props.py) ==== *)

(* ---- stream parser ----  every state reachable by legal calls and accepted set_stream calls from a converted
   parser keeps the buffer invariants (= debug_assert_invars!); every call under the caller contract returns Ok
   or Err for ANY bytes (no panic); an Err is AbortRequest or UnknownVersion and is reported again by every
   later call, nothing delivered, nothing emitted; over every schedule the bytes handed over are a prefix of
   the specification content of the bytes fed (chunking-invariant by construction: K is a function of the bytes
   alone) *)
Theorem C03_stream_total_and_invariant :
  forall (maxc : N) (p0 p : sp),
  sp_inv p0 ->
  reach maxc p0 p ->
  (parsed_start p <= gap_start p /\
   gap_start p <= raw_start p /\
   raw_start p <= free_start p /\ free_start p <= len (buffer p) /\ output_start p <= len (output p)) /\
  sp_inv p /\
  (forall (new : bytes) (dest : option N),
   call_legal p new dest ->
   (exists (p' : sp) (s : status), sparse maxc p new dest = StOk p' s /\ sp_inv p') \/
   (exists (p' : sp) (e : perr) (s : status),
      sparse maxc p new dest = StErr p' e s /\
      sp_inv p' /\
      (e = EAbortRequest \/ (exists v : N, e = EUnknownVersion v)) /\
      (forall (new' : bytes) (dest' : option N),
       call_legal p' new' dest' ->
       exists p'' : sp,
         sparse maxc p' new' dest' = StErr p'' e (first_status p') /\
         stream_buffer p'' = stream_buffer p' /\
         output_buffer p'' = output_buffer p' /\ raw_bytes p'' = raw_bytes p' ++ new'))) /\
  (forall ops : list cop,
   csched_legal maxc p ops ->
   cno_panic maxc p ops /\
   (forall u : bytes,
    cdelivered maxc p ops ++ stream_buffer (cfinal maxc p ops) ++ coming (cfinal maxc p ops) u =
    stream_buffer p ++ coming p (cfed ops ++ u))).
Proof. exact C03_stream. Qed.

(* the index-level parser refines the list-level machine on every input *)
Theorem C03_stream_refinement :
  forall (maxc : N) (p : sp) (new : bytes) (dest : option N),
  RI p ->
  aparse maxc (abs p) new dest = absres (sparse maxc p new dest) /\
  sparse_post p new dest (sparse maxc p new dest).
Proof. exact sparse_refines. Qed.

