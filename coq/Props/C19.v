(* Props/C19.v — CGI variable names: equality, order, hash and interning agree and ignore ASCII case.
   Only statements; every proof is [exact lemma].  Model: Cgi/Names.v (src/cgi/mod.rs, src/cgi/intern.rs).
   Strings are arbitrary lists of numbers: no byte-range, UTF-8 or length hypothesis anywhere
   (except the explicit "no 0xff byte" of prefix-freeness, which every UTF-8 string satisfies). *)
From FV Require Import Base.Bytes Gen.Generated Cgi.Names Cgi.NamesProofs.

(* ---- std's eq_ignore_ascii_case (lower-casing, length check) is equality of the upper-cased strings ---- *)
Theorem C19_eq_iff_upper : forall a b, eq_ic a b = true <-> upper a = upper b.
Proof. exact eq_ic_iff. Qed.

(* upper-casing changes exactly the bytes 97..122, by -32 *)
Theorem C19_upper_bytes : forall s,
  upper s = map (fun x => if (97 <=? x) && (x <=? 122) then x - 32 else x) s.
Proof. exact upper_bytes_spec. Qed.

(* ---- VarName == is an equivalence relation ---- *)
Theorem C19_eq_refl : forall a, eq_ic a a = true.
Proof. exact eq_ic_refl. Qed.

Theorem C19_eq_sym : forall a b, eq_ic a b = eq_ic b a.
Proof. exact eq_ic_sym. Qed.

Theorem C19_eq_trans : forall a b c, eq_ic a b = true -> eq_ic b c = true -> eq_ic a c = true.
Proof. exact eq_ic_trans. Qed.

(* ---- VarName Ord is a total order consistent with == ---- *)
Theorem C19_cmp_eq_iff : forall a b, cmp_ic a b = Eq <-> eq_ic a b = true.
Proof. exact cmp_ic_eq_iff. Qed.

Theorem C19_cmp_antisym : forall a b, cmp_ic a b = CompOpp (cmp_ic b a).
Proof. exact cmp_ic_antisym. Qed.

Theorem C19_cmp_lt_trans : forall a b c, cmp_ic a b = Lt -> cmp_ic b c = Lt -> cmp_ic a c = Lt.
Proof. exact cmp_ic_lt_trans. Qed.

Theorem C19_cmp_gt_trans : forall a b c, cmp_ic a b = Gt -> cmp_ic b c = Gt -> cmp_ic a c = Gt.
Proof. exact cmp_ic_gt_trans. Qed.

(* transitivity of "less or equal" *)
Theorem C19_cmp_le_trans : forall a b c, cmp_ic a b <> Gt -> cmp_ic b c <> Gt -> cmp_ic a c <> Gt.
Proof. exact cmp_ic_le_trans. Qed.

(* the order is defined on == classes *)
Theorem C19_cmp_compat : forall a a' b b',
  eq_ic a a' = true -> eq_ic b b' = true -> cmp_ic a b = cmp_ic a' b'.
Proof. exact cmp_ic_compat. Qed.

(* ---- Hash: the sequence of Hasher::write payloads is equal iff the names are == ---- *)
(* (hence equal names hash identically under ANY hasher, and only equal names do so structurally) *)
Theorem C19_hash_iff_eq : forall a b, hash_writes a = hash_writes b <-> eq_ic a b = true.
Proof. exact hash_writes_eq_ic. Qed.

(* hashing never panics; the concatenated payloads are the upper-cased name followed by 0xff *)
Theorem C19_hash_stream : forall s, exists ws,
  hash_writes s = Some ws /\ concat ws = upper s ++ [255].
Proof. exact hash_writes_concat. Qed.

(* shape: full HASH_LANES-byte writes, then one shorter write ending in 0xff *)
Theorem C19_hash_shape : forall s, exists full last,
  hash_writes s = Some (full ++ [last ++ [255]])
  /\ Forall (fun w => len w = HASH_LANES) full /\ len last < HASH_LANES
  /\ concat full ++ last = upper s.
Proof. exact hash_writes_shape. Qed.

(* the flattened stream is injective on upper-cased names ... *)
Theorem C19_hash_stream_injective : forall a b,
  upper a ++ [255] = upper b ++ [255] <-> upper a = upper b.
Proof. exact hash_stream_inj. Qed.

(* ... and prefix-free (whatever is hashed after the name) for strings without a 0xff byte *)
Theorem C19_hash_prefix_free : forall a b ra rb, ~ In 255 a -> ~ In 255 b ->
  (upper a ++ [255]) ++ ra = (upper b ++ [255]) ++ rb -> upper a = upper b /\ ra = rb.
Proof. exact hash_stream_prefix_free. Qed.

(* ---- the regenerated name table: no duplicates, every entry already upper-case ---- *)
Theorem C19_table_nodup : NoDup STATIC_VAR_NAMES.
Proof. exact table_nodup. Qed.

Theorem C19_table_upper : forall e, In e STATIC_VAR_NAMES -> upper e = e.
Proof. exact table_upper. Qed.

(* parsing a string into an interned name: exact membership in the table, and the name reads back *)
Theorem C19_parse_exact : forall s,
  match static_parse s with
  | Some i => static_ok i = true /\ static_str i = s
  | None => ~ In s STATIC_VAR_NAMES
  end.
Proof. exact parse_exact. Qed.

Theorem C19_parse_roundtrip : forall i, static_ok i = true -> static_parse (static_str i) = Some i.
Proof. exact static_parse_str. Qed.

(* ---- OwnedVarName ==, Ord, Hash agree with the borrowed view of as_ref, for every combination of
        representations (Static/Static fast path included) ---- *)
Theorem C19_owned_eq : forall a b, owned_ok a = true -> owned_ok b = true ->
  owned_eq a b = eq_ic (as_ref a) (as_ref b).
Proof. exact owned_eq_spec. Qed.

Theorem C19_owned_cmp : forall a b, owned_ok a = true -> owned_ok b = true ->
  owned_cmp a b = cmp_ic (as_ref a) (as_ref b).
Proof. exact owned_cmp_spec. Qed.

Theorem C19_owned_hash : forall a, owned_hash a = hash_writes (as_ref a).
Proof. exact owned_hash_spec. Qed.

(* ---- constructors ---- *)
(* every string constructor: normalising ones (String, Box<str>, Cow::Owned, from_mut_str) yield the
   upper-cased string, the others (&str, Cow::Borrowed, &VarName, to_owned) keep it unchanged; the
   result is interned iff that string is (exactly) in the table; it is a valid value *)
Theorem C19_ctor : forall c s,
  as_ref (build c s) = (if normalising c then upper s else s)
  /\ (is_static (build c s) = true <-> In (if normalising c then upper s else s) STATIC_VAR_NAMES)
  /\ owned_ok (build c s) = true.
Proof. exact ctor_spec. Qed.

(* from_mut_str also leaves the caller's string upper-cased *)
Theorem C19_from_mut_str : forall s, snd (from_mut_str s) = upper s.
Proof. exact from_mut_str_snd. Qed.

(* an interned name reads back as its table entry *)
Theorem C19_static_readback : forall i, static_ok i = true ->
  as_ref (from_static i) = nth (N.to_nat i) STATIC_VAR_NAMES []
  /\ In (as_ref (from_static i)) STATIC_VAR_NAMES.
Proof. exact from_static_as_ref. Qed.

(* any spelling of a table entry becomes, through a normalising constructor, the interned name and
   reads back as the canonical spelling; through &str only the exact spelling is interned *)
Theorem C19_canonical_spelling : forall e s, In e STATIC_VAR_NAMES -> eq_ic s e = true ->
  exists i, from_compact s = Static i /\ static_ok i = true /\ static_str i = e.
Proof. exact from_compact_table. Qed.

Theorem C19_borrowed_keeps_case : forall s, upper s <> s -> from_str s = Custom s.
Proof. exact from_str_not_upper. Qed.

(* an HTTP header name maps to HTTP_ ++ upper-cased name with '-' replaced by '_' *)
Theorem C19_header : forall h,
  as_ref (from_header h) = [72; 84; 84; 80; 95] ++ upper (map (fun b => if b =? 45 then 95 else b) h)
  /\ as_ref (from_header h) = [72; 84; 84; 80; 95] ++ map (fun b => if b =? 45 then 95 else b) (upper h)
  /\ owned_ok (from_header h) = true.
Proof. exact header_spec. Qed.

(* ---- whichever constructor, representation or letter case: ==, Ord and Hash of the owned names are
        those of the nominal strings ---- *)
Theorem C19_any_source : forall x y, src_ok x = true -> src_ok y = true ->
  owned_eq (src_owned x) (src_owned y) = eq_ic (src_name x) (src_name y)
  /\ owned_cmp (src_owned x) (src_owned y) = cmp_ic (src_name x) (src_name y)
  /\ (owned_hash (src_owned x) = owned_hash (src_owned y) <-> eq_ic (src_name x) (src_name y) = true)
  /\ owned_hash (src_owned x) = hash_writes (src_name x).
Proof. exact any_source. Qed.

(* a map lookup by any spelling finds the entry: the key built by constructor c1 from s and the key
   built by c2 from t are ==, compare Equal and produce the same Hasher::write sequence (also the
   same as the borrowed VarName t used with Borrow<VarName>) *)
Theorem C19_lookup_any_spelling : forall c1 c2 s t, eq_ic s t = true ->
  owned_eq (build c1 s) (build c2 t) = true
  /\ owned_cmp (build c1 s) (build c2 t) = Eq
  /\ owned_hash (build c1 s) = owned_hash (build c2 t)
  /\ owned_hash (build c1 s) = hash_writes t
  /\ eq_ic (as_ref (build c1 s)) t = true.
Proof. exact lookup_any_spelling. Qed.

(* ... and only then *)
Theorem C19_lookup_distinct : forall c1 c2 s t, eq_ic s t = false ->
  owned_eq (build c1 s) (build c2 t) = false
  /\ owned_cmp (build c1 s) (build c2 t) <> Eq
  /\ owned_hash (build c1 s) <> owned_hash (build c2 t).
Proof. exact lookup_distinct. Qed.

(* ---- non-vacuity ---- *)
(* "Content_Length" (mixed case): From<String> interns it as variant 1 = CONTENT_LENGTH; From<&str>
   keeps a Custom copy; both are ==, and == the static constant; "http_x" < "HTTP_Y" ignoring case;
   a 17-byte name hashes as one 16-byte write and a 2-byte write ending in 0xff. *)
Example C19_example :
  let s := [67; 111; 110; 116; 101; 110; 116; 95; 76; 101; 110; 103; 116; 104] in
  build CString s = Static 1
  /\ build CStr s = Custom s
  /\ as_ref (build CString s) = [67; 79; 78; 84; 69; 78; 84; 95; 76; 69; 78; 71; 84; 72]
  /\ owned_eq (build CString s) (build CStr s) = true
  /\ owned_eq (from_static 1) (build CStr s) = true
  /\ owned_eq (from_static 1) (from_static 2) = false
  /\ cmp_ic [104; 116; 116; 112; 95; 120] [72; 84; 84; 80; 95; 89] = Lt
  /\ eq_ic [195; 169] [195; 137] = false
  /\ hash_writes [97; 97; 97; 97; 97; 97; 97; 97; 97; 97; 97; 97; 97; 97; 97; 97; 98]
     = Some [[65; 65; 65; 65; 65; 65; 65; 65; 65; 65; 65; 65; 65; 65; 65; 65]; [66; 255]]
  /\ as_ref (from_header [120; 45; 97; 45; 98]) = [72; 84; 84; 80; 95; 88; 95; 65; 95; 66].
Proof. vm_compute. repeat split; reflexivity. Qed.
