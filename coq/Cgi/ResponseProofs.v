(* Cgi/ResponseProofs.v — lemmas about Cgi/Response.v (C20). *)
From Coq Require Import ZArith.
From FV Require Import Base.Bytes Base.BytesLemmas Cgi.Response.
From Coq Require Import ZifyBool ZifyNat ZifyN.
Ltac Zify.zify_post_hook ::= Z.div_mod_to_equations.

(* ---- specification vocabulary --------------------------------------------------------------- *)
(* the documented output of write_headers: "Status: <code> <reason>" then "\n<name>: <value>" per
   header in order, then "\n\n" *)
Definition header_line (h : bytes * bytes) : bytes := let '(n, v) := h in [10] ++ n ++ [58; 32] ++ v.
Definition status_line (reason : N -> option bytes) (code : N) : bytes :=
  [83; 116; 97; 116; 117; 115; 58; 32] ++ status_as_str code ++ [32]
  ++ match reason code with Some r => r | None => [67; 117; 115; 116; 111; 109] end.
Definition expected_headers (reason : N -> option bytes) (code : N) (hs : list (bytes * bytes)) : bytes :=
  [83; 116; 97; 116; 117; 115; 58; 32] ++ status_as_str code ++ [32]
  ++ match reason code with Some r => r | None => [67; 117; 115; 116; 111; 109] end
  ++ concat (map header_line hs) ++ [10; 10].
Definition expected_redirect (loc : bytes) : bytes :=
  [76; 111; 99; 97; 116; 105; 111; 110; 58; 32] ++ loc ++ [10; 10].

(* number of occurrences of a byte *)
Definition count_byte (b : N) (l : bytes) : N := len (filter (N.eqb b) l).

(* split at every occurrence of [d]: k occurrences give k+1 pieces *)
Fixpoint split_on (d : N) (l : bytes) : list bytes :=
  match l with
  | [] => [[]]
  | x :: r =>
    if x =? d then [] :: split_on d r
    else match split_on d r with p :: ps => (x :: p) :: ps | [] => [[x]] end
  end.

Lemma expected_headers_lines reason code hs :
  expected_headers reason code hs = status_line reason code ++ concat (map header_line hs) ++ [10; 10].
Proof. unfold expected_headers, status_line. rewrite <- !app_assoc. reflexivity. Qed.

(* ---- proof device: a sequence of write_all calls with early exit ---------------------------- *)
Fixpoint write_seq (w : writer) (bufs : list bytes) : writer * bool :=
  match bufs with
  | [] => (w, true)
  | b :: r => if snd (write_all w b) then write_seq (fst (write_all w b)) r
              else (fst (write_all w b), false)
  end.

Definition fin (s : writer * bool) (n : N) : writer * option N :=
  (fst s, if snd s then Some n else None).

Lemma write_seq_app w a b :
  write_seq w (a ++ b) =
  if snd (write_seq w a) then write_seq (fst (write_seq w a)) b else (fst (write_seq w a), false).
Proof.
  revert w. induction a as [|x a IH]; intros w; cbn [app write_seq fst snd]; [reflexivity|].
  destruct (snd (write_all w x)) eqn:E.
  - apply IH.
  - reflexivity.
Qed.

(* unbounded destination: everything is appended, never fails *)
Lemma write_seq_vec o bufs :
  write_seq (mkW o None) bufs = (mkW (o ++ concat bufs) None, true).
Proof.
  revert o. induction bufs as [|b bufs IH]; intros o; cbn [write_seq concat].
  - rewrite app_nil_r. reflexivity.
  - unfold write_all at 1 2. cbn [w_room w_out fst snd]. rewrite IH, app_assoc. reflexivity.
Qed.

(* bounded destination: the first [r] bytes of the concatenation arrive; Ok iff all of it fits *)
Lemma write_seq_bounded o r bufs :
  write_seq (mkW o (Some r)) bufs =
  (mkW (o ++ take r (concat bufs)) (Some (r - len (concat bufs))), len (concat bufs) <=? r).
Proof.
  revert o r. induction bufs as [|b bufs IH]; intros o r; cbn [write_seq concat].
  - rewrite take_nil, app_nil_r, len_nil. f_equal; [f_equal; f_equal; lia|].
    destruct (N.leb_spec 0 r); [reflexivity|lia].
  - unfold write_all. cbn [w_room w_out fst snd].
    destruct (N.le_gt_cases (len b) r) as [Hfit|Hno].
    + replace (N.min (len b) r) with (len b) by lia. rewrite N.eqb_refl.
      rewrite (take_all (len b) b) by lia. rewrite IH. rewrite len_app.
      rewrite (take_app_ge r b) by exact Hfit. rewrite app_assoc.
      f_equal; [f_equal; f_equal; lia|].
      destruct (N.leb_spec (len (concat bufs)) (r - len b)),
               (N.leb_spec (len b + len (concat bufs)) r); try reflexivity; lia.
    + replace (N.min (len b) r) with r by lia.
      destruct (N.eqb_spec r (len b)) as [E|_]; [lia|].
      rewrite (take_app_le r b) by lia. rewrite len_app.
      f_equal; [f_equal; f_equal; lia|].
      destruct (N.leb_spec (len b + len (concat bufs)) r); [lia|reflexivity].
Qed.

(* ---- the Rust functions are such sequences --------------------------------------------------- *)
Definition hdr_chunks (hs : list (bytes * bytes)) : list bytes :=
  flat_map (fun h => [NL; fst h; COLON_SP; snd h]) hs.

Lemma concat_hdr_chunks hs : concat (hdr_chunks hs) = concat (map header_line hs).
Proof.
  induction hs as [|[n v] hs IH]; [reflexivity|].
  cbn [hdr_chunks flat_map map concat app fst snd header_line]. fold (hdr_chunks hs).
  rewrite IH. unfold NL, COLON_SP. rewrite <- !app_assoc. reflexivity.
Qed.

Lemma sbuf_eq code : sbuf code = [83; 116; 97; 116; 117; 115; 58; 32] ++ status_as_str code ++ [32].
Proof. reflexivity. Qed.

Lemma len_status_as_str code : len (status_as_str code) = 3.
Proof. reflexivity. Qed.

Lemma len_sbuf code : len (sbuf code) = 12.
Proof. reflexivity. Qed.

Section WithReasonTable.
  Variable reason : N -> option bytes.

  Lemma loop_seq hs : forall w written,
    write_header_loop w written hs =
    fin (write_seq w (hdr_chunks hs)) (written + len (concat (hdr_chunks hs))).
  Proof.
    induction hs as [|[n v] hs IH]; intros w written.
    - cbn [write_header_loop hdr_chunks flat_map write_seq concat]. unfold fin. cbn [fst snd].
      rewrite len_nil. f_equal. f_equal. lia.
    - cbn [write_header_loop hdr_chunks flat_map app fst snd write_seq]. fold (hdr_chunks hs).
      unfold try_.
      destruct (write_all w NL) as [w1 ok1]; cbn [fst snd]. destruct ok1; [|reflexivity].
      destruct (write_all w1 n) as [w2 ok2]; cbn [fst snd]. destruct ok2; [|reflexivity].
      destruct (write_all w2 COLON_SP) as [w3 ok3]; cbn [fst snd]. destruct ok3; [|reflexivity].
      destruct (write_all w3 v) as [w4 ok4]; cbn [fst snd]. destruct ok4; [|reflexivity].
      rewrite IH. unfold fin. f_equal.
      destruct (snd (write_seq w4 (hdr_chunks hs))); [|reflexivity].
      f_equal. cbn [concat]. rewrite !len_app. unfold NL, COLON_SP.
      change (len [10]) with 1. change (len [58; 32]) with 2. lia.
  Qed.

  Definition all_chunks (code : N) (hs : list (bytes * bytes)) : list bytes :=
    sbuf code :: reason_bytes reason code :: hdr_chunks hs ++ [NLNL].

  Lemma concat_all_chunks code hs : concat (all_chunks code hs) = expected_headers reason code hs.
  Proof.
    unfold all_chunks, expected_headers. cbn [concat].
    rewrite concat_app, concat_hdr_chunks. cbn [concat]. rewrite app_nil_r.
    rewrite sbuf_eq. unfold reason_bytes, CUSTOM, NLNL. rewrite <- !app_assoc. reflexivity.
  Qed.

  Lemma write_headers_seq w code hs :
    write_headers reason w code hs =
    fin (write_seq w (all_chunks code hs)) (len (expected_headers reason code hs)).
  Proof.
    rewrite <- concat_all_chunks.
    unfold write_headers, all_chunks, try_. cbn [write_seq concat].
    destruct (write_all w (sbuf code)) as [w1 ok1]; cbn [fst snd]. destruct ok1; [|reflexivity].
    destruct (write_all w1 (reason_bytes reason code)) as [w2 ok2]; cbn [fst snd].
    destruct ok2; [|reflexivity].
    rewrite loop_seq, write_seq_app. unfold fin.
    destruct (write_seq w2 (hdr_chunks hs)) as [w3 ok3]; cbn [fst snd]. destruct ok3; [|reflexivity].
    cbn [write_seq].
    destruct (write_all w3 NLNL) as [w4 ok4]; cbn [fst snd]. destruct ok4; [|reflexivity].
    cbn [snd]. f_equal. rewrite concat_app. cbn [concat]. rewrite app_nil_r, !len_app.
    change (len NLNL) with 2. f_equal. lia.
  Qed.

  Lemma http_headers_eq w code hs : http_headers reason w code hs = write_headers reason w code hs.
  Proof. reflexivity. Qed.

  (* bounded destination *)
  Lemma write_headers_bounded out0 cap code hs :
    let expected := expected_headers reason code hs in
    (len expected <= cap ->
       write_headers reason (mkW out0 (Some cap)) code hs =
       (mkW (out0 ++ expected) (Some (cap - len expected)), Some (len expected)))
    /\ (cap < len expected ->
       write_headers reason (mkW out0 (Some cap)) code hs =
       (mkW (out0 ++ take cap expected) (Some 0), None)
       /\ len (take cap expected) = cap).
  Proof.
    intros expected. rewrite write_headers_seq, write_seq_bounded, concat_all_chunks.
    fold expected. unfold fin. cbn [fst snd]. split; intros H.
    - destruct (N.leb_spec (len expected) cap); [|lia]. rewrite take_all by lia. reflexivity.
    - destruct (N.leb_spec (len expected) cap); [lia|]. split.
      + f_equal. f_equal. f_equal. lia.
      + rewrite len_take. lia.
  Qed.

  (* unbounded destination *)
  Lemma write_headers_vec out0 code hs :
    write_headers reason (mkW out0 None) code hs =
    (mkW (out0 ++ expected_headers reason code hs) None, Some (len (expected_headers reason code hs))).
  Proof. rewrite write_headers_seq, write_seq_vec, concat_all_chunks. reflexivity. Qed.

  (* any destination: Ok n means exactly the documented text was appended and n is its length *)
  Lemma write_headers_count w code hs w' n :
    write_headers reason w code hs = (w', Some n) ->
    exists added,
      w_out w' = w_out w ++ added /\ len added = n /\ added = expected_headers reason code hs
      /\ w_room w' = match w_room w with Some r => Some (r - n) | None => None end
      /\ match w_room w with Some r => n <= r | None => True end.
  Proof.
    destruct w as [o [r|]]; cbn [w_out w_room]; intros H.
    - destruct (write_headers_bounded o r code hs) as [Hok Hfail].
      destruct (N.le_gt_cases (len (expected_headers reason code hs)) r) as [Hle|Hgt].
      + rewrite (Hok Hle) in H. inversion H; subst. cbn [w_out w_room].
        exists (expected_headers reason code hs). repeat split; try reflexivity; exact Hle.
      + destruct (Hfail Hgt) as [E _]. rewrite E in H. discriminate.
    - rewrite write_headers_vec in H. inversion H; subst. cbn [w_out w_room].
      exists (expected_headers reason code hs). repeat split; reflexivity.
  Qed.
End WithReasonTable.

(* ---- simple_redirect ------------------------------------------------------------------------- *)
Lemma simple_redirect_seq w loc :
  simple_redirect w loc = fin (write_seq w [LOCATION; loc; NLNL]) (len (expected_redirect loc)).
Proof.
  unfold simple_redirect, try_. cbn [write_seq].
  destruct (write_all w LOCATION) as [w1 ok1]; cbn [fst snd]. destruct ok1; [|reflexivity].
  destruct (write_all w1 loc) as [w2 ok2]; cbn [fst snd]. destruct ok2; [|reflexivity].
  destruct (write_all w2 NLNL) as [w3 ok3]; cbn [fst snd]. destruct ok3; [|reflexivity].
  unfold fin. cbn [fst snd]. f_equal. f_equal. unfold expected_redirect. rewrite !len_app.
  change (len LOCATION) with 10. change (len [76; 111; 99; 97; 116; 105; 111; 110; 58; 32]) with 10.
  change (len [10; 10]) with 2. lia.
Qed.

Lemma concat_redirect loc : concat [LOCATION; loc; NLNL] = expected_redirect loc.
Proof. unfold expected_redirect, LOCATION, NLNL. cbn [concat]. rewrite app_nil_r. reflexivity. Qed.

Lemma simple_redirect_bounded out0 cap loc :
  let expected := expected_redirect loc in
  (len expected <= cap ->
     simple_redirect (mkW out0 (Some cap)) loc =
     (mkW (out0 ++ expected) (Some (cap - len expected)), Some (len expected)))
  /\ (cap < len expected ->
     simple_redirect (mkW out0 (Some cap)) loc = (mkW (out0 ++ take cap expected) (Some 0), None)
     /\ len (take cap expected) = cap).
Proof.
  intros expected. rewrite simple_redirect_seq, write_seq_bounded, concat_redirect.
  fold expected. unfold fin. cbn [fst snd]. split; intros H.
  - destruct (N.leb_spec (len expected) cap); [|lia]. rewrite take_all by lia. reflexivity.
  - destruct (N.leb_spec (len expected) cap); [lia|]. split.
    + f_equal. f_equal. f_equal. lia.
    + rewrite len_take. lia.
Qed.

Lemma simple_redirect_vec out0 loc :
  simple_redirect (mkW out0 None) loc =
  (mkW (out0 ++ expected_redirect loc) None, Some (len (expected_redirect loc))).
Proof. rewrite simple_redirect_seq, write_seq_vec, concat_redirect. reflexivity. Qed.

Lemma simple_redirect_count w loc w' n :
  simple_redirect w loc = (w', Some n) ->
  exists added,
    w_out w' = w_out w ++ added /\ len added = n /\ added = expected_redirect loc
    /\ w_room w' = match w_room w with Some r => Some (r - n) | None => None end
    /\ match w_room w with Some r => n <= r | None => True end.
Proof.
  destruct w as [o [r|]]; cbn [w_out w_room]; intros H.
  - destruct (simple_redirect_bounded o r loc) as [Hok Hfail].
    destruct (N.le_gt_cases (len (expected_redirect loc)) r) as [Hle|Hgt].
    + rewrite (Hok Hle) in H. inversion H; subst. cbn [w_out w_room].
      exists (expected_redirect loc). repeat split; try reflexivity; exact Hle.
    + destruct (Hfail Hgt) as [E _]. rewrite E in H. discriminate.
  - rewrite simple_redirect_vec in H. inversion H; subst. cbn [w_out w_room].
    exists (expected_redirect loc). repeat split; reflexivity.
Qed.

Lemma len_expected_redirect loc : len (expected_redirect loc) = len loc + 12.
Proof.
  unfold expected_redirect. rewrite !len_app.
  change (len [76; 111; 99; 97; 116; 105; 111; 110; 58; 32]) with 10. change (len [10; 10]) with 2. lia.
Qed.

(* ---- both theorems packaged for Props -------------------------------------------------------- *)
Lemma vec_both reason out0 code hs loc :
  write_headers reason (mkW out0 None) code hs =
    (mkW (out0 ++ expected_headers reason code hs) None, Some (len (expected_headers reason code hs)))
  /\ simple_redirect (mkW out0 None) loc =
    (mkW (out0 ++ expected_redirect loc) None, Some (len (expected_redirect loc))).
Proof. split; [apply write_headers_vec|apply simple_redirect_vec]. Qed.

(* ---- status codes ---------------------------------------------------------------------------- *)
Lemma status_from_u16_spec c c' :
  status_from_u16 c = Some c' <-> c' = c /\ 100 <= c /\ c <= 999.
Proof.
  unfold status_from_u16.
  destruct (N.ltb_spec c 100) as [L1|L1], (N.leb_spec 1000 c) as [L2|L2]; cbn [orb]; split; intros H;
    try discriminate; try lia.
  - inversion H. lia.
  - destruct H as [-> _]. reflexivity.
Qed.

Lemma status_as_str_digits c : 100 <= c -> c <= 999 ->
  exists d2 d1 d0, status_as_str c = [48 + d2; 48 + d1; 48 + d0]
    /\ 1 <= d2 /\ d2 <= 9 /\ d1 <= 9 /\ d0 <= 9 /\ c = 100 * d2 + 10 * d1 + d0.
Proof.
  intros H1 H2. exists (c / 100), (c / 10 mod 10), (c mod 10). unfold status_as_str.
  split; [|lia]. f_equal. f_equal. lia.
Qed.

Lemma status_as_str_inj c c' : 100 <= c -> c <= 999 -> 100 <= c' -> c' <= 999 ->
  status_as_str c = status_as_str c' -> c = c'.
Proof.
  intros H1 H2 H3 H4 E. unfold status_as_str in E. inversion E as [[E2 E1 E0]]. lia.
Qed.

(* ---- grammar: lines -------------------------------------------------------------------------- *)
Lemma count_byte_nil b : count_byte b [] = 0.
Proof. reflexivity. Qed.

Lemma count_byte_cons b x l : count_byte b (x :: l) = (if b =? x then 1 else 0) + count_byte b l.
Proof.
  unfold count_byte. cbn [filter]. destruct (b =? x); [rewrite len_cons|]; lia.
Qed.

Lemma count_byte_app b x y : count_byte b (x ++ y) = count_byte b x + count_byte b y.
Proof. unfold count_byte. rewrite filter_app, len_app. reflexivity. Qed.

Lemma count_status_as_str c : count_byte 10 (status_as_str c) = 0.
Proof.
  unfold status_as_str. rewrite !count_byte_cons, count_byte_nil.
  destruct (N.eqb_spec 10 (48 + c / 100 mod 10)); [lia|].
  destruct (N.eqb_spec 10 (48 + c / 10 mod 10)); [lia|].
  destruct (N.eqb_spec 10 (48 + c mod 10)); [lia|]. reflexivity.
Qed.

Definition no_nl (l : bytes) : Prop := count_byte 10 l = 0.
Definition headers_no_nl (hs : list (bytes * bytes)) : Prop :=
  Forall (fun h => no_nl (fst h) /\ no_nl (snd h)) hs.

Lemma count_header_line n v : no_nl n -> no_nl v -> count_byte 10 (header_line (n, v)) = 1.
Proof.
  unfold no_nl, header_line. intros Hn Hv. rewrite !count_byte_app, Hn, Hv. reflexivity.
Qed.

Lemma count_header_lines hs : headers_no_nl hs ->
  count_byte 10 (concat (map header_line hs)) = len hs.
Proof.
  induction 1 as [|[n v] hs [Hn Hv] _ IH]; [reflexivity|].
  cbn [map concat fst snd] in *. rewrite count_byte_app, IH, count_header_line by assumption.
  rewrite len_cons. lia.
Qed.

Lemma count_status_line reason code :
  (forall r, reason code = Some r -> no_nl r) -> count_byte 10 (status_line reason code) = 0.
Proof.
  intros Hr. unfold status_line. rewrite !count_byte_app, count_status_as_str.
  destruct (reason code) as [r|]; [rewrite (Hr r eq_refl)|]; reflexivity.
Qed.

Lemma count_expected reason code hs :
  (forall r, reason code = Some r -> no_nl r) -> headers_no_nl hs ->
  count_byte 10 (expected_headers reason code hs) = len hs + 2.
Proof.
  intros Hr Hh. rewrite expected_headers_lines.
  rewrite !count_byte_app, count_status_line, count_header_lines by assumption. reflexivity.
Qed.

Lemma split_on_nonempty d l : split_on d l <> [].
Proof.
  destruct l as [|x l]; cbn [split_on]; [discriminate|].
  destruct (x =? d); [discriminate|]. destruct (split_on d l); discriminate.
Qed.

Lemma split_on_app d a b : count_byte d a = 0 -> split_on d (a ++ d :: b) = a :: split_on d b.
Proof.
  induction a as [|x a IH]; intros H; cbn [app split_on].
  - rewrite N.eqb_refl. reflexivity.
  - rewrite count_byte_cons in H. destruct (N.eqb_spec d x) as [E|NE]; [lia|].
    destruct (N.eqb_spec x d) as [E'|_]; [congruence|].
    rewrite IH by lia. reflexivity.
Qed.

Lemma split_lines_aux hs : headers_no_nl hs -> forall pre, no_nl pre ->
  split_on 10 (pre ++ concat (map header_line hs) ++ [10; 10]) =
  pre :: map (fun h => fst h ++ [58; 32] ++ snd h) hs ++ [[]; []].
Proof.
  induction 1 as [|[n v] hs [Hn Hv] _ IH]; intros pre Hp; cbn [map concat app fst snd].
  - rewrite split_on_app by exact Hp. reflexivity.
  - unfold header_line at 1. cbn [app]. rewrite <- app_assoc.
    rewrite split_on_app by exact Hp. f_equal.
    apply (IH (n ++ [58; 32] ++ v)).
    unfold no_nl in *. cbn [fst snd] in Hn, Hv. rewrite !count_byte_app, Hn, Hv. reflexivity.
Qed.

Lemma split_expected reason code hs :
  (forall r, reason code = Some r -> no_nl r) -> headers_no_nl hs ->
  split_on 10 (expected_headers reason code hs) =
  status_line reason code :: map (fun h => fst h ++ [58; 32] ++ snd h) hs ++ [[]; []].
Proof.
  intros Hr Hh. rewrite expected_headers_lines. apply split_lines_aux; [exact Hh|].
  apply count_status_line. exact Hr.
Qed.

Lemma split_redirect loc : no_nl loc ->
  split_on 10 (expected_redirect loc) =
  [[76; 111; 99; 97; 116; 105; 111; 110; 58; 32] ++ loc; []; []].
Proof.
  intros H. unfold expected_redirect. rewrite app_assoc. rewrite split_on_app; [reflexivity|].
  unfold no_nl in H. rewrite count_byte_app, H. reflexivity.
Qed.
