(* Cgi/Response.v — model of src/cgi/response.rs (simple_redirect / http_headers / write_headers)
   together with the two std::io::Write destinations the property observes. No proofs here.

   Conventions: io::Result<usize> is [option N] (None = Err, always io::ErrorKind::WriteZero for the
   destinations modelled here); every `w.write_all(..)?` of the Rust text is one [write_all] step
   followed by [try_] (the `?` operator) — the chunks are never pre-concatenated.

   The usize byte counter is an unbounded [N]: it only ever adds lengths of chunks that were
   written completely (C20_count_is_written), so it is bounded by the bytes held in memory.

   Not modelled: `debug_assert!(!name.eq_ignore_ascii_case(b"status"))` (response.rs:81). It is a
   documented precondition of write_headers ("which must not be used in `headers`"); header lists
   containing such a name are outside the property's domain and are kept out of the generator. *)
From FV Require Import Base.Bytes.

(* ---- destination --------------------------------------------------------------------------- *)
(* [w_out]: the bytes the destination holds so far; [w_room]: how many more bytes fit,
   [None] = unbounded (Vec<u8>), [Some r] = a `&mut [u8]` whose remaining length is r. *)
Record writer := mkW { w_out : bytes; w_room : option N }.

(* <&mut [u8] as Write>::write_all (std/src/io/impls.rs): copies amt = min(buf.len(), self.len())
   bytes, advances the slice by amt, and is Ok iff amt == buf.len() (otherwise WriteZero; the copied
   prefix stays).  <Vec<u8> as Write>::write_all: extend_from_slice, always Ok.
   `impl Write for &mut W` forwards to these. *)
Definition write_all (w : writer) (buf : bytes) : writer * bool :=
  match w_room w with
  | None => (mkW (w_out w ++ buf) None, true)
  | Some r =>
    let amt := N.min (len buf) r in
    (mkW (w_out w ++ take amt buf) (Some (r - amt)), amt =? len buf)
  end.

(* the `?` after a write_all: on Err return early with the destination as it is now *)
Definition try_ (r : writer * bool) (k : writer -> writer * option N) : writer * option N :=
  if snd r then k (fst r) else (fst r, None).

(* ---- simple_redirect, response.rs:28-35 ---------------------------------------------------- *)
(* const LOCATION: &[u8] = b"Location: ";  response.rs:29 *)
Definition LOCATION : bytes := [76; 111; 99; 97; 116; 105; 111; 110; 58; 32].
(* b"\n\n", response.rs:33 and :89 *)
Definition NLNL : bytes := [10; 10].

Definition simple_redirect (w : writer) (loc : bytes) : writer * option N :=
  try_ (write_all w LOCATION) (fun w =>          (* :31 *)
  try_ (write_all w loc) (fun w =>               (* :32 *)
  try_ (write_all w NLNL) (fun w =>              (* :33 *)
  (w, Some (len LOCATION + 2 + len loc))))).     (* :34  Ok(LOCATION.len() + 2 + val.len()) *)

(* ---- http::StatusCode (http 1.0.0, src/status.rs) ------------------------------------------ *)
(* StatusCode::from_u16, status.rs:73-81: exactly 100..=999 are constructible. *)
Definition status_from_u16 (c : N) : option N :=
  if (c <? 100) || (1000 <=? c) then None else Some c.

(* StatusCode::as_str, status.rs:135-147: the 3 bytes at offset (code-100)*3 of the table
   CODE_DIGITS = "100101102...999", i.e. the three decimal digits of the code. *)
Definition status_as_str (c : N) : bytes :=
  [48 + c / 100 mod 10; 48 + c / 10 mod 10; 48 + c mod 10].

(* ---- write_headers, response.rs:67-91 ------------------------------------------------------ *)
(* let mut sbuf = *b"Status: \0\0\0 ";  response.rs:72 *)
Definition SBUF_INIT : bytes := [83; 116; 97; 116; 117; 115; 58; 32; 0; 0; 0; 32].
(* sbuf[8..11].copy_from_slice(status.as_str().as_bytes());  response.rs:73
   (copy_from_slice panics on a length mismatch; as_str is always 3 bytes, so it cannot here) *)
Definition sbuf (code : N) : bytes := take 8 SBUF_INIT ++ status_as_str code ++ drop 11 SBUF_INIT.
(* b"Custom", response.rs:74 *)
Definition CUSTOM : bytes := [67; 117; 115; 116; 111; 109].
(* b"\n" :82 and b": " :84 *)
Definition NL : bytes := [10].
Definition COLON_SP : bytes := [58; 32].

Section WithReasonTable.
  (* StatusCode::canonical_reason (status.rs:167, macro table :312): a parameter, so that every
     statement holds for whatever table the http crate ships. *)
  Variable reason : N -> option bytes.

  (* status.canonical_reason().map_or(b"Custom", str::as_bytes), response.rs:74 *)
  Definition reason_bytes (code : N) : bytes :=
    match reason code with Some r => r | None => CUSTOM end.

  (* the `for (name, val) in headers` loop, response.rs:80-87; [written] is the running counter *)
  Fixpoint write_header_loop (w : writer) (written : N) (hs : list (bytes * bytes))
    : writer * option N :=
    match hs with
    | [] => (w, Some written)
    | (name, val) :: rest =>
      try_ (write_all w NL) (fun w =>            (* :82 *)
      try_ (write_all w name) (fun w =>          (* :83 *)
      try_ (write_all w COLON_SP) (fun w =>      (* :84 *)
      try_ (write_all w val) (fun w =>           (* :85 *)
      write_header_loop w (written + (len name + len val + 3)) rest))))   (* :86 *)
    end.

  Definition write_headers (w : writer) (code : N) (hs : list (bytes * bytes)) : writer * option N :=
    let sb := sbuf code in
    let rs := reason_bytes code in
    try_ (write_all w sb) (fun w =>              (* :76 *)
    try_ (write_all w rs) (fun w =>              (* :77 *)
    let written := len sb + len rs in            (* :78 *)
    match write_header_loop w written hs with    (* :80-87 *)
    | (w, None) => (w, None)
    | (w, Some written) =>
      try_ (write_all w NLNL) (fun w =>          (* :89 *)
      (w, Some (written + 2)))                   (* :90 *)
    end)).

  (* http_headers, response.rs:48-51: [hs] is what response.headers().iter() yields (name bytes,
     value bytes), [code] is response.status(). *)
  Definition http_headers (w : writer) (code : N) (hs : list (bytes * bytes)) : writer * option N :=
    write_headers w code hs.
End WithReasonTable.
