(* Cgi/NamesProofs.v — lemmas about Cgi/Names.v (C19).  All statements hold for arbitrary lists of
   numbers (no byte-range or length hypothesis). *)
From Coq Require Import ZArith.
From FV Require Import Base.Bytes Base.BytesLemmas Gen.Generated Cgi.Names.
From Coq Require Import ZifyBool ZifyNat ZifyN.
Ltac Zify.zify_post_hook ::= Z.div_mod_to_equations.

(* ------------------------------------------------------------------------------------------ *)
(* bytes                                                                                        *)
(* ------------------------------------------------------------------------------------------ *)

Ltac case_ranges x :=
  destruct (N.leb_spec 65 x), (N.leb_spec x 90), (N.leb_spec 97 x), (N.leb_spec x 122).

(* std compares lower-cased bytes; the crate's Ord/Hash upper-case: same relation *)
Lemma byte_eq_ic_upper x y : byte_eq_ic x y = (to_upper x =? to_upper y).
Proof.
  unfold byte_eq_ic, to_lower, to_upper, is_ascii_upper, is_ascii_lower.
  case_ranges x; case_ranges y; cbn [andb]; lia.
Qed.

(* only 97..122 change, by exactly -32 *)
Lemma to_upper_spec x : to_upper x = if (97 <=? x) && (x <=? 122) then x - 32 else x.
Proof. reflexivity. Qed.

Lemma to_upper_fixed x : x < 97 \/ 122 < x -> to_upper x = x.
Proof.
  intros H. unfold to_upper, is_ascii_lower.
  destruct (N.leb_spec 97 x), (N.leb_spec x 122); cbn [andb]; try reflexivity; lia.
Qed.

Lemma to_upper_idem x : to_upper (to_upper x) = to_upper x.
Proof.
  unfold to_upper at 2 3. destruct (is_ascii_lower x) eqn:E; [|unfold to_upper; rewrite E; reflexivity].
  apply to_upper_fixed. unfold is_ascii_lower in E. lia.
Qed.

(* ------------------------------------------------------------------------------------------ *)
(* upper                                                                                        *)
(* ------------------------------------------------------------------------------------------ *)

Lemma upper_idem s : upper (upper s) = upper s.
Proof. unfold upper. rewrite map_map. apply map_ext. exact to_upper_idem. Qed.

Lemma length_upper s : length (upper s) = length s.
Proof. apply map_length. Qed.

Lemma len_upper s : len (upper s) = len s.
Proof. unfold len. rewrite length_upper. reflexivity. Qed.

Lemma upper_app a b : upper (a ++ b) = upper a ++ upper b.
Proof. apply map_app. Qed.

Lemma upper_take n s : upper (take n s) = take n (upper s).
Proof. unfold upper, take. symmetry. apply firstn_map. Qed.

Lemma upper_drop n s : upper (drop n s) = drop n (upper s).
Proof. unfold upper, drop. symmetry. apply skipn_map. Qed.

Lemma upper_eq_length a b : upper a = upper b -> length a = length b.
Proof. intros H. rewrite <- (length_upper a), <- (length_upper b), H. reflexivity. Qed.

(* ------------------------------------------------------------------------------------------ *)
(* equality ignoring ASCII case                                                                 *)
(* ------------------------------------------------------------------------------------------ *)

Lemma zip_all_upper a : forall b, length a = length b ->
  (forallb (fun p => byte_eq_ic (fst p) (snd p)) (combine a b) = true <-> upper a = upper b).
Proof.
  induction a as [|x a IH]; intros [|y b] Hl; cbn [length] in Hl; try discriminate.
  - cbn [combine forallb upper map]. tauto.
  - cbn [combine forallb upper map fst snd]. rewrite andb_true_iff, byte_eq_ic_upper, N.eqb_eq.
    injection Hl as Hl. specialize (IH b Hl). fold (upper a) (upper b). split.
    + intros [E1 E2]. f_equal; [exact E1|apply IH; exact E2].
    + intros E. injection E as E1 E2. split; [exact E1|apply IH; exact E2].
Qed.

Lemma eq_ic_iff a b : eq_ic a b = true <-> upper a = upper b.
Proof.
  unfold eq_ic, eq_ignore_ascii_case. rewrite andb_true_iff, N.eqb_eq. split.
  - intros [Hl H]. apply zip_all_upper; [unfold len in Hl; lia|exact H].
  - intros H. pose proof (upper_eq_length a b H) as Hl. split; [unfold len; lia|].
    apply zip_all_upper; assumption.
Qed.

Lemma eq_ic_false_iff a b : eq_ic a b = false <-> upper a <> upper b.
Proof.
  rewrite <- eq_ic_iff. destruct (eq_ic a b); split; congruence.
Qed.

Lemma eq_ic_refl a : eq_ic a a = true.
Proof. apply eq_ic_iff. reflexivity. Qed.

Lemma eq_ic_sym a b : eq_ic a b = eq_ic b a.
Proof.
  apply Bool.eq_iff_eq_true. rewrite !eq_ic_iff. split; intros H; symmetry; exact H.
Qed.

Lemma eq_ic_trans a b c : eq_ic a b = true -> eq_ic b c = true -> eq_ic a c = true.
Proof. rewrite !eq_ic_iff. intros H1 H2. congruence. Qed.

Lemma eq_ic_cong a a' b b' : upper a = upper a' -> upper b = upper b' -> eq_ic a b = eq_ic a' b'.
Proof.
  intros Ha Hb. apply Bool.eq_iff_eq_true. rewrite !eq_ic_iff, Ha, Hb. tauto.
Qed.

Lemma eq_ic_upper_l a : eq_ic (upper a) a = true.
Proof. apply eq_ic_iff. apply upper_idem. Qed.

(* equal strings are equal ignoring case; strings of different length are not *)
Lemma eq_ic_len a b : eq_ic a b = true -> len a = len b.
Proof. rewrite eq_ic_iff. intros H. apply upper_eq_length in H. unfold len. lia. Qed.

(* ------------------------------------------------------------------------------------------ *)
(* lexicographic order                                                                          *)
(* ------------------------------------------------------------------------------------------ *)

Lemma lex_cmp_refl a : lex_cmp a a = Eq.
Proof. induction a as [|x a IH]; cbn [lex_cmp]; [reflexivity|]. rewrite N.compare_refl. exact IH. Qed.

Lemma lex_cmp_eq a : forall b, lex_cmp a b = Eq <-> a = b.
Proof.
  induction a as [|x a IH]; intros [|y b]; cbn [lex_cmp]; split; try congruence; try discriminate.
  - destruct (N.compare_spec x y) as [E|L|G]; try discriminate.
    intros H. apply IH in H. congruence.
  - intros H. injection H as -> ->. rewrite N.compare_refl. apply lex_cmp_refl.
Qed.

Lemma lex_cmp_antisym a : forall b, lex_cmp a b = CompOpp (lex_cmp b a).
Proof.
  induction a as [|x a IH]; intros [|y b]; cbn [lex_cmp]; try reflexivity.
  rewrite (N.compare_antisym y x). destruct (y ?= x); cbn [CompOpp]; [apply IH|reflexivity|reflexivity].
Qed.

Lemma lex_cmp_lt_trans a : forall b c, lex_cmp a b = Lt -> lex_cmp b c = Lt -> lex_cmp a c = Lt.
Proof.
  induction a as [|x a IH]; intros [|y b] [|z c]; cbn [lex_cmp]; try congruence; try discriminate.
  destruct (N.compare_spec x y) as [E|L|G]; try discriminate;
    destruct (N.compare_spec y z) as [E'|L'|G']; try discriminate; intros H1 H2.
  - subst. rewrite N.compare_refl. eapply IH; eassumption.
  - subst. rewrite (proj2 (N.compare_lt_iff y z)) by exact L'. reflexivity.
  - subst. rewrite (proj2 (N.compare_lt_iff x z)) by exact L. reflexivity.
  - rewrite (proj2 (N.compare_lt_iff x z)) by lia. reflexivity.
Qed.

Lemma lex_cmp_le_trans a b c : lex_cmp a b <> Gt -> lex_cmp b c <> Gt -> lex_cmp a c <> Gt.
Proof.
  intros H1 H2. destruct (lex_cmp a b) eqn:E1; [|clear H1|congruence].
  - apply lex_cmp_eq in E1. subst. exact H2.
  - destruct (lex_cmp b c) eqn:E2; [| |congruence].
    + apply lex_cmp_eq in E2. subst. rewrite E1. discriminate.
    + rewrite (lex_cmp_lt_trans a b c E1 E2). discriminate.
Qed.

(* a proper prefix is smaller *)
Lemma lex_cmp_prefix a : forall b, b <> [] -> lex_cmp a (a ++ b) = Lt.
Proof.
  induction a as [|x a IH]; intros b Hb; cbn [lex_cmp app].
  - destruct b; [congruence|reflexivity].
  - rewrite N.compare_refl. apply IH. exact Hb.
Qed.

(* ---- cmp_ic ---- *)

Lemma cmp_ic_unfold a b : cmp_ic a b = lex_cmp (upper a) (upper b).
Proof. reflexivity. Qed.

Lemma cmp_ic_eq_iff a b : cmp_ic a b = Eq <-> eq_ic a b = true.
Proof. rewrite cmp_ic_unfold, lex_cmp_eq, eq_ic_iff. tauto. Qed.

Lemma cmp_ic_antisym a b : cmp_ic a b = CompOpp (cmp_ic b a).
Proof. rewrite !cmp_ic_unfold. apply lex_cmp_antisym. Qed.

Lemma cmp_ic_lt_trans a b c : cmp_ic a b = Lt -> cmp_ic b c = Lt -> cmp_ic a c = Lt.
Proof. rewrite !cmp_ic_unfold. apply lex_cmp_lt_trans. Qed.

Lemma cmp_ic_le_trans a b c : cmp_ic a b <> Gt -> cmp_ic b c <> Gt -> cmp_ic a c <> Gt.
Proof. rewrite !cmp_ic_unfold. apply lex_cmp_le_trans. Qed.

Lemma cmp_ic_gt_trans a b c : cmp_ic a b = Gt -> cmp_ic b c = Gt -> cmp_ic a c = Gt.
Proof.
  rewrite (cmp_ic_antisym a b), (cmp_ic_antisym b c), (cmp_ic_antisym a c).
  intros H1 H2.
  assert (E1 : cmp_ic b a = Lt) by (destruct (cmp_ic b a); cbn [CompOpp] in H1; congruence).
  assert (E2 : cmp_ic c b = Lt) by (destruct (cmp_ic c b); cbn [CompOpp] in H2; congruence).
  rewrite (cmp_ic_lt_trans c b a E2 E1). reflexivity.
Qed.

Lemma cmp_ic_cong a a' b b' : upper a = upper a' -> upper b = upper b' -> cmp_ic a b = cmp_ic a' b'.
Proof. intros Ha Hb. rewrite !cmp_ic_unfold, Ha, Hb. reflexivity. Qed.

(* the order is the byte order of the upper-cased strings: total, and it respects eq_ic classes *)
Lemma cmp_ic_compat a a' b b' :
  eq_ic a a' = true -> eq_ic b b' = true -> cmp_ic a b = cmp_ic a' b'.
Proof. rewrite !eq_ic_iff. apply cmp_ic_cong. Qed.

(* ------------------------------------------------------------------------------------------ *)
(* hashing                                                                                      *)
(* ------------------------------------------------------------------------------------------ *)

Lemma lanes_pos : 0 < HASH_LANES.
Proof. reflexivity. Qed.

Lemma lanes_nz : (HASH_LANES =? 0) = false.
Proof. pose proof lanes_pos. lia. Qed.

Lemma hash_chunks_upper k : forall s, hash_chunks k (upper s) = hash_chunks k s.
Proof.
  induction k as [|k IH]; intros s; cbn [hash_chunks]; [reflexivity|].
  rewrite len_upper. destruct (HASH_LANES <=? len s).
  - rewrite <- upper_take, upper_idem, <- upper_drop, IH. reflexivity.
  - rewrite upper_idem. reflexivity.
Qed.

Lemma hash_chunks_concat k : forall s, (length s < k)%nat -> concat (hash_chunks k s) = upper s ++ [255].
Proof.
  pose proof lanes_pos as HL.
  induction k as [|k IH]; intros s Hk; [lia|]. cbn [hash_chunks].
  destruct (N.leb_spec HASH_LANES (len s)) as [H|H]; cbn [concat].
  - rewrite IH.
    + rewrite app_assoc, <- upper_app, take_drop. reflexivity.
    + pose proof (len_drop HASH_LANES s) as Hd. unfold len in *. lia.
  - apply app_nil_r.
Qed.

(* shape of the write sequence: full LANES-sized upper-cased chunks, then the short remainder + 0xff *)
Lemma hash_chunks_shape k : forall s, (length s < k)%nat ->
  exists full last, hash_chunks k s = full ++ [last ++ [255]]
    /\ Forall (fun w => len w = HASH_LANES) full /\ len last < HASH_LANES
    /\ concat full ++ last = upper s.
Proof.
  pose proof lanes_pos as HL.
  induction k as [|k IH]; intros s Hk; [lia|]. cbn [hash_chunks].
  destruct (N.leb_spec HASH_LANES (len s)) as [H|H].
  - destruct (IH (drop HASH_LANES s)) as (full & last & E & Hf & Hlast & Hc).
    + pose proof (len_drop HASH_LANES s) as Hd. unfold len in *. lia.
    + exists (upper (take HASH_LANES s) :: full), last. rewrite E. split; [reflexivity|].
      split; [|split; [exact Hlast|]].
      * constructor; [|exact Hf]. rewrite len_upper, len_take. lia.
      * cbn [concat]. rewrite <- app_assoc, Hc, <- upper_app, take_drop. reflexivity.
  - exists [], (upper s). split; [reflexivity|]. split; [constructor|].
    split; [rewrite len_upper; exact H|reflexivity].
Qed.

Lemma hash_writes_some s : hash_writes s = Some (hash_chunks (S (length s)) s).
Proof. unfold hash_writes. rewrite lanes_nz. reflexivity. Qed.

Lemma hash_writes_no_panic s : hash_writes s <> None.
Proof. rewrite hash_writes_some. discriminate. Qed.

Lemma hash_writes_concat s : exists ws, hash_writes s = Some ws /\ concat ws = upper s ++ [255].
Proof.
  eexists. split; [apply hash_writes_some|]. apply hash_chunks_concat. lia.
Qed.

Lemma hash_writes_shape s : exists full last,
  hash_writes s = Some (full ++ [last ++ [255]])
  /\ Forall (fun w => len w = HASH_LANES) full /\ len last < HASH_LANES
  /\ concat full ++ last = upper s.
Proof.
  destruct (hash_chunks_shape (S (length s)) s) as (full & last & E & H); [lia|].
  exists full, last. rewrite hash_writes_some, E. split; [reflexivity|exact H].
Qed.

Lemma hash_writes_cong a b : upper a = upper b -> hash_writes a = hash_writes b.
Proof.
  intros H. rewrite !hash_writes_some. f_equal.
  rewrite <- (hash_chunks_upper _ a), <- (hash_chunks_upper _ b), H, (upper_eq_length a b H).
  reflexivity.
Qed.

Lemma hash_writes_iff a b : hash_writes a = hash_writes b <-> upper a = upper b.
Proof.
  split; [|apply hash_writes_cong].
  destruct (hash_writes_concat a) as (wa & Ea & Ca). destruct (hash_writes_concat b) as (wb & Eb & Cb).
  rewrite Ea, Eb. intros [= ->]. rewrite Ca in Cb. apply app_inj_tail in Cb. tauto.
Qed.

Lemma hash_writes_eq_ic a b : hash_writes a = hash_writes b <-> eq_ic a b = true.
Proof. rewrite hash_writes_iff, eq_ic_iff. tauto. Qed.

(* the flattened stream of one name *)
Definition hash_stream (s : bytes) : bytes := upper s ++ [255].

Lemma hash_stream_inj a b : hash_stream a = hash_stream b <-> upper a = upper b.
Proof.
  unfold hash_stream. split; [|intros ->; reflexivity].
  intros H. apply app_inj_tail in H. tauto.
Qed.

Lemma to_upper_255 x : to_upper x = 255 -> x = 255.
Proof.
  unfold to_upper, is_ascii_lower.
  destruct (N.leb_spec 97 x), (N.leb_spec x 122); cbn [andb]; lia.
Qed.

Lemma in_upper_255 s : In 255 (upper s) -> In 255 s.
Proof.
  unfold upper. rewrite in_map_iff. intros (x & Hx & Hin). apply to_upper_255 in Hx. subst. exact Hin.
Qed.

(* prefix-freeness: for strings without the byte 0xff (every UTF-8 string), the stream of one name
   is never a proper prefix of the stream of a different name, whatever follows *)
Lemma hash_stream_prefix_free a : forall b ra rb, ~ In 255 a -> ~ In 255 b ->
  hash_stream a ++ ra = hash_stream b ++ rb -> upper a = upper b /\ ra = rb.
Proof.
  unfold hash_stream.
  induction a as [|x a IH]; intros [|y b] ra rb Ha Hb; cbn [upper map app]; intros H.
  - injection H as H. tauto.
  - injection H as H1 H2. exfalso. apply Hb. left. symmetry in H1. apply to_upper_255 in H1. exact H1.
  - injection H as H1 H2. exfalso. apply Ha. left. apply to_upper_255 in H1. exact H1.
  - injection H as H1 H2. fold (upper a) (upper b) in *.
    destruct (IH b ra rb) as [E1 E2].
    + intros C. apply Ha. right. exact C.
    + intros C. apply Hb. right. exact C.
    + exact H2.
    + split; [congruence|exact E2].
Qed.

(* ------------------------------------------------------------------------------------------ *)
(* the static table                                                                             *)
(* ------------------------------------------------------------------------------------------ *)

Fixpoint nodupb (l : list bytes) : bool :=
  match l with [] => true | e :: l' => negb (existsb (beq e) l') && nodupb l' end.

Lemma nodupb_NoDup l : nodupb l = true -> NoDup l.
Proof.
  induction l as [|e l IH]; cbn [nodupb]; intros H; [constructor|].
  apply andb_true_iff in H as [H1 H2]. constructor; [|apply IH; exact H2].
  intros Hin. apply negb_true_iff in H1.
  assert (existsb (beq e) l = true) as C; [|congruence].
  apply existsb_exists. exists e. split; [exact Hin|apply beq_eq; reflexivity].
Qed.

(* the two facts about the regenerated table, re-checked by evaluation whenever it changes *)
Lemma table_nodup : NoDup STATIC_VAR_NAMES.
Proof. apply nodupb_NoDup. vm_compute. reflexivity. Qed.

Lemma table_upper e : In e STATIC_VAR_NAMES -> upper e = e.
Proof.
  assert (H : forallb (fun e => beq (upper e) e) STATIC_VAR_NAMES = true) by (vm_compute; reflexivity).
  rewrite forallb_forall in H. intros Hin. apply beq_eq. apply H. exact Hin.
Qed.

Lemma table_nonempty_names e : In e STATIC_VAR_NAMES -> e <> [].
Proof.
  assert (H : forallb (fun e => negb (beq e [])) STATIC_VAR_NAMES = true) by (vm_compute; reflexivity).
  rewrite forallb_forall in H. intros Hin E. specialize (H e Hin). subst.
  discriminate.
Qed.

(* ---- index_of ---- *)

Lemma index_of_some s l : forall i j, index_of s l i = Some j ->
  i <= j /\ j - i < len l /\ nth (N.to_nat (j - i)) l [] = s.
Proof.
  induction l as [|e l IH]; intros i j; cbn [index_of]; [discriminate|].
  destruct (beq s e) eqn:E.
  - intros [= <-]. replace (i - i) with 0 by lia. apply beq_eq in E. subst.
    rewrite len_cons. split; [lia|]. split; [lia|reflexivity].
  - intros H. apply IH in H as (H1 & H2 & H3). rewrite len_cons. split; [lia|]. split; [lia|].
    replace (N.to_nat (j - i)) with (S (N.to_nat (j - (i + 1)))) by lia. exact H3.
Qed.

Lemma index_of_none s l : forall i, index_of s l i = None <-> ~ In s l.
Proof.
  induction l as [|e l IH]; intros i; cbn [index_of In]; [tauto|].
  destruct (beq s e) eqn:E.
  - apply beq_eq in E. subst. split; [discriminate|]. intros H. exfalso. apply H. left. reflexivity.
  - rewrite IH. assert (e <> s).
    { intros ->. assert (beq s s = true) by (apply beq_eq; reflexivity). congruence. }
    tauto.
Qed.

Lemma index_of_nth l : NoDup l -> forall k i, (k < length l)%nat ->
  index_of (nth k l []) l i = Some (i + N.of_nat k).
Proof.
  induction 1 as [|e l Hnin Hnd IH]; intros k i Hk; cbn [length] in Hk; [lia|].
  cbn [index_of]. destruct k as [|k]; cbn [nth].
  - assert (beq e e = true) as -> by (apply beq_eq; reflexivity). f_equal. lia.
  - destruct (beq (nth k l []) e) eqn:E.
    + apply beq_eq in E. exfalso. apply Hnin. rewrite <- E. apply nth_In. lia.
    + rewrite IH by lia. f_equal. lia.
Qed.

(* ---- StaticVarName ---- *)

Lemma static_parse_some s i : static_parse s = Some i -> static_ok i = true /\ static_str i = s.
Proof.
  unfold static_parse, static_ok, static_str. intros H. apply index_of_some in H as (H1 & H2 & H3).
  replace (i - 0) with i in * by lia. split; [lia|exact H3].
Qed.

Lemma static_parse_none s : static_parse s = None <-> ~ In s STATIC_VAR_NAMES.
Proof. apply index_of_none. Qed.

Lemma static_parse_str i : static_ok i = true -> static_parse (static_str i) = Some i.
Proof.
  unfold static_parse, static_ok, static_str, len. intros H.
  assert (Hk : (N.to_nat i < length STATIC_VAR_NAMES)%nat) by lia.
  pose proof (index_of_nth STATIC_VAR_NAMES table_nodup (N.to_nat i) 0 Hk) as E.
  replace (0 + N.of_nat (N.to_nat i)) with i in E by lia. exact E.
Qed.

Lemma static_str_in i : static_ok i = true -> In (static_str i) STATIC_VAR_NAMES.
Proof. unfold static_ok, static_str, len. intros H. apply nth_In. lia. Qed.

Lemma static_parse_in s : In s STATIC_VAR_NAMES <-> exists i, static_parse s = Some i.
Proof.
  split.
  - intros H. destruct (static_parse s) as [i|] eqn:E; [exists i; reflexivity|].
    apply static_parse_none in E. contradiction.
  - intros [i H]. apply static_parse_some in H as [H1 H2]. rewrite <- H2. apply static_str_in. exact H1.
Qed.

Lemma static_str_inj i j : static_ok i = true -> static_ok j = true ->
  static_str i = static_str j -> i = j.
Proof.
  unfold static_ok, static_str, len. intros Hi Hj H.
  pose proof (proj1 (NoDup_nth STATIC_VAR_NAMES []) table_nodup (N.to_nat i) (N.to_nat j)) as Hn.
  assert (N.to_nat i = N.to_nat j) by (apply Hn; [lia|lia|exact H]). lia.
Qed.

Lemma static_str_upper i : static_ok i = true -> upper (static_str i) = static_str i.
Proof. intros H. apply table_upper. apply static_str_in. exact H. Qed.

(* variant equality = equality of names, also ignoring case (no two names differ only in case) *)
Lemma static_eq_spec i j : static_ok i = true -> static_ok j = true ->
  static_eq i j = eq_ic (static_str i) (static_str j).
Proof.
  intros Hi Hj. unfold static_eq. apply Bool.eq_iff_eq_true.
  rewrite N.eqb_eq, eq_ic_iff, !static_str_upper by assumption. split.
  - intros ->. reflexivity.
  - apply static_str_inj; assumption.
Qed.

Lemma static_cmp_spec i j : static_ok i = true -> static_ok j = true ->
  static_cmp i j = cmp_ic (static_str i) (static_str j).
Proof.
  intros Hi Hj. unfold static_cmp. rewrite cmp_ic_unfold, !static_str_upper by assumption. reflexivity.
Qed.

(* ------------------------------------------------------------------------------------------ *)
(* OwnedVarName                                                                                 *)
(* ------------------------------------------------------------------------------------------ *)

Lemma owned_eq_spec a b : owned_ok a = true -> owned_ok b = true ->
  owned_eq a b = eq_ic (as_ref a) (as_ref b).
Proof.
  destruct a as [i|s], b as [j|t]; cbn [owned_ok owned_eq as_ref]; intros Ha Hb; try reflexivity.
  apply static_eq_spec; assumption.
Qed.

Lemma owned_cmp_spec a b : owned_ok a = true -> owned_ok b = true ->
  owned_cmp a b = cmp_ic (as_ref a) (as_ref b).
Proof.
  destruct a as [i|s], b as [j|t]; cbn [owned_ok owned_cmp as_ref]; intros Ha Hb; try reflexivity.
  apply static_cmp_spec; assumption.
Qed.

Lemma owned_hash_spec a : owned_hash a = hash_writes (as_ref a).
Proof. reflexivity. Qed.

(* ---- constructors ---- *)

Lemma from_str_as_ref s : as_ref (from_str s) = s.
Proof.
  unfold from_str. destruct (static_parse s) as [i|] eqn:E; cbn [as_ref]; [|reflexivity].
  apply static_parse_some in E. tauto.
Qed.

Lemma from_str_ok s : owned_ok (from_str s) = true.
Proof.
  unfold from_str. destruct (static_parse s) as [i|] eqn:E; cbn [owned_ok]; [|reflexivity].
  apply static_parse_some in E. tauto.
Qed.

Lemma from_str_static s : is_static (from_str s) = true <-> In s STATIC_VAR_NAMES.
Proof.
  rewrite static_parse_in. unfold from_str. destruct (static_parse s) as [i|]; cbn [is_static]; split.
  - intros _. exists i. reflexivity.
  - reflexivity.
  - discriminate.
  - intros [i H]. discriminate.
Qed.

Lemma from_compact_from_str s : from_compact s = from_str (upper s).
Proof. reflexivity. Qed.

Lemma from_compact_as_ref s : as_ref (from_compact s) = upper s.
Proof. rewrite from_compact_from_str. apply from_str_as_ref. Qed.

Lemma from_compact_ok s : owned_ok (from_compact s) = true.
Proof. rewrite from_compact_from_str. apply from_str_ok. Qed.

Lemma from_compact_static s : is_static (from_compact s) = true <-> In (upper s) STATIC_VAR_NAMES.
Proof. rewrite from_compact_from_str. apply from_str_static. Qed.

Lemma from_mut_str_spec s : from_mut_str s = (from_compact s, upper s).
Proof. reflexivity. Qed.

Lemma build_spec c s : build c s = if normalising c then from_compact s else from_str s.
Proof. destruct c; reflexivity. Qed.

Lemma build_as_ref c s : as_ref (build c s) = if normalising c then upper s else s.
Proof.
  rewrite build_spec. destruct (normalising c); [apply from_compact_as_ref|apply from_str_as_ref].
Qed.

Lemma build_ok c s : owned_ok (build c s) = true.
Proof.
  rewrite build_spec. destruct (normalising c); [apply from_compact_ok|apply from_str_ok].
Qed.

Lemma build_static c s :
  is_static (build c s) = true <-> In (if normalising c then upper s else s) STATIC_VAR_NAMES.
Proof.
  rewrite build_spec. destruct (normalising c); [apply from_compact_static|apply from_str_static].
Qed.

(* an interned name reads back as the table entry; any spelling of a table entry, through a
   normalising constructor, is interned and reads back as the canonical spelling *)
Lemma from_static_as_ref i : static_ok i = true ->
  as_ref (from_static i) = nth (N.to_nat i) STATIC_VAR_NAMES [] /\ In (as_ref (from_static i)) STATIC_VAR_NAMES.
Proof. intros H. split; [reflexivity|apply static_str_in; exact H]. Qed.

Lemma from_str_table e : In e STATIC_VAR_NAMES ->
  exists i, from_str e = Static i /\ static_ok i = true /\ static_str i = e.
Proof.
  intros H. apply static_parse_in in H as [i H]. exists i. unfold from_str. rewrite H.
  apply static_parse_some in H. tauto.
Qed.

Lemma from_compact_table e s : In e STATIC_VAR_NAMES -> eq_ic s e = true ->
  exists i, from_compact s = Static i /\ static_ok i = true /\ static_str i = e.
Proof.
  intros H E. apply eq_ic_iff in E. rewrite (table_upper e H) in E.
  rewrite from_compact_from_str, E. apply from_str_table. exact H.
Qed.

(* exact-match interning is case-sensitive: a spelling that is not already upper-case stays Custom *)
Lemma from_str_not_upper s : upper s <> s -> from_str s = Custom s.
Proof.
  intros H. unfold from_str. destruct (static_parse s) as [i|] eqn:E; [|reflexivity].
  exfalso. apply H. apply table_upper. apply static_parse_in. exists i. exact E.
Qed.

(* ---- header names ---- *)

Definition dash_to_underscore (b : N) : N := if b =? 45 then 95 else b.

Lemma split_on_join c d s :
  fst (split_on c s) ++ flat_map (fun q => d :: q) (snd (split_on c s))
  = map (fun b => if b =? c then d else b) s.
Proof.
  induction s as [|b s IH]; cbn [split_on]; [reflexivity|].
  destruct (split_on c s) as [p ps]. cbn [fst snd] in IH. cbn [map].
  destruct (b =? c); cbn [fst snd flat_map app]; rewrite <- IH; reflexivity.
Qed.

Lemma header_var_spec h : header_var h = HTTP_PREFIX ++ map dash_to_underscore h.
Proof.
  unfold header_var. pose proof (split_on_join 45 95 h) as H.
  destruct (split_on 45 h) as [p ps]. cbn [fst snd] in H. rewrite H. reflexivity.
Qed.

Lemma upper_dash b : to_upper (dash_to_underscore b) = dash_to_underscore (to_upper b).
Proof.
  unfold dash_to_underscore, to_upper, is_ascii_lower.
  destruct (N.eqb_spec b 45) as [->|Hb]; [reflexivity|].
  destruct (N.leb_spec 97 b), (N.leb_spec b 122); cbn [andb];
    try (destruct (N.eqb_spec b 45); [lia|reflexivity]).
  destruct (N.eqb_spec (b - 32) 45); [lia|reflexivity].
Qed.

Lemma from_header_as_ref h :
  as_ref (from_header h) = HTTP_PREFIX ++ upper (map dash_to_underscore h).
Proof.
  unfold from_header. rewrite from_compact_as_ref, header_var_spec, upper_app. reflexivity.
Qed.

Lemma from_header_as_ref' h :
  as_ref (from_header h) = HTTP_PREFIX ++ map dash_to_underscore (upper h).
Proof.
  rewrite from_header_as_ref. f_equal. unfold upper. rewrite !map_map. apply map_ext. exact upper_dash.
Qed.

(* ---- every constructor denotes its nominal string up to case ---- *)

Lemma src_owned_ok x : src_ok x = true -> owned_ok (src_owned x) = true.
Proof.
  destruct x as [c s|i|h]; cbn [src_ok src_owned]; intros H.
  - apply build_ok.
  - exact H.
  - apply from_compact_ok.
Qed.

Lemma src_owned_upper x : upper (as_ref (src_owned x)) = upper (src_name x).
Proof.
  destruct x as [c s|i|h]; cbn [src_owned src_name].
  - rewrite build_as_ref. destruct (normalising c); [apply upper_idem|reflexivity].
  - reflexivity.
  - unfold from_header. rewrite from_compact_as_ref. apply upper_idem.
Qed.

Lemma src_eq x y : src_ok x = true -> src_ok y = true ->
  owned_eq (src_owned x) (src_owned y) = eq_ic (src_name x) (src_name y).
Proof.
  intros Hx Hy. rewrite owned_eq_spec by (apply src_owned_ok; assumption).
  apply eq_ic_cong; apply src_owned_upper.
Qed.

Lemma src_cmp x y : src_ok x = true -> src_ok y = true ->
  owned_cmp (src_owned x) (src_owned y) = cmp_ic (src_name x) (src_name y).
Proof.
  intros Hx Hy. rewrite owned_cmp_spec by (apply src_owned_ok; assumption).
  apply cmp_ic_cong; apply src_owned_upper.
Qed.

Lemma src_hash x y :
  owned_hash (src_owned x) = owned_hash (src_owned y) <-> eq_ic (src_name x) (src_name y) = true.
Proof.
  rewrite !owned_hash_spec, hash_writes_iff, !src_owned_upper, eq_ic_iff. tauto.
Qed.

(* the owned name hashes exactly like the borrowed view of its nominal string *)
Lemma src_hash_borrowed x : owned_hash (src_owned x) = hash_writes (src_name x).
Proof. rewrite owned_hash_spec. apply hash_writes_cong. apply src_owned_upper. Qed.

Lemma lookup_any_spelling c1 c2 s t : eq_ic s t = true ->
  owned_eq (build c1 s) (build c2 t) = true
  /\ owned_cmp (build c1 s) (build c2 t) = Eq
  /\ owned_hash (build c1 s) = owned_hash (build c2 t)
  /\ owned_hash (build c1 s) = hash_writes t
  /\ eq_ic (as_ref (build c1 s)) t = true.
Proof.
  intros H.
  pose proof (src_eq (SStr c1 s) (SStr c2 t) eq_refl eq_refl) as He.
  pose proof (src_cmp (SStr c1 s) (SStr c2 t) eq_refl eq_refl) as Hc.
  pose proof (src_hash (SStr c1 s) (SStr c2 t)) as Hh.
  pose proof (src_hash_borrowed (SStr c1 s)) as Hb.
  cbn [src_owned src_name] in *.
  split; [congruence|]. split; [rewrite Hc; apply cmp_ic_eq_iff; exact H|].
  split; [apply Hh; exact H|]. split; [rewrite Hb; apply hash_writes_eq_ic; exact H|].
  pose proof (src_owned_upper (SStr c1 s)) as Hu. cbn [src_owned src_name] in Hu.
  apply eq_ic_iff. rewrite Hu. apply eq_ic_iff. exact H.
Qed.

Lemma lookup_distinct c1 c2 s t : eq_ic s t = false ->
  owned_eq (build c1 s) (build c2 t) = false
  /\ owned_cmp (build c1 s) (build c2 t) <> Eq
  /\ owned_hash (build c1 s) <> owned_hash (build c2 t).
Proof.
  intros H.
  pose proof (src_eq (SStr c1 s) (SStr c2 t) eq_refl eq_refl) as He.
  pose proof (src_cmp (SStr c1 s) (SStr c2 t) eq_refl eq_refl) as Hc.
  pose proof (src_hash (SStr c1 s) (SStr c2 t)) as Hh.
  cbn [src_owned src_name] in *.
  split; [congruence|]. split.
  - rewrite Hc, cmp_ic_eq_iff. congruence.
  - rewrite Hh. congruence.
Qed.

(* ---- packaged statements for Props/C19.v ---- *)

Lemma upper_bytes_spec s :
  upper s = map (fun x => if (97 <=? x) && (x <=? 122) then x - 32 else x) s.
Proof. reflexivity. Qed.

Lemma parse_exact s :
  match static_parse s with
  | Some i => static_ok i = true /\ static_str i = s
  | None => ~ In s STATIC_VAR_NAMES
  end.
Proof.
  destruct (static_parse s) as [i|] eqn:E;
    [exact (static_parse_some s i E)|exact (proj1 (static_parse_none s) E)].
Qed.

Lemma ctor_spec c s :
  as_ref (build c s) = (if normalising c then upper s else s)
  /\ (is_static (build c s) = true <-> In (if normalising c then upper s else s) STATIC_VAR_NAMES)
  /\ owned_ok (build c s) = true.
Proof. exact (conj (build_as_ref c s) (conj (build_static c s) (build_ok c s))). Qed.

Lemma from_mut_str_snd s : snd (from_mut_str s) = upper s.
Proof. reflexivity. Qed.

Lemma header_spec h :
  as_ref (from_header h) = [72; 84; 84; 80; 95] ++ upper (map (fun b => if b =? 45 then 95 else b) h)
  /\ as_ref (from_header h) = [72; 84; 84; 80; 95] ++ map (fun b => if b =? 45 then 95 else b) (upper h)
  /\ owned_ok (from_header h) = true.
Proof.
  exact (conj (from_header_as_ref h) (conj (from_header_as_ref' h) (from_compact_ok (header_var h)))).
Qed.

Lemma any_source x y : src_ok x = true -> src_ok y = true ->
  owned_eq (src_owned x) (src_owned y) = eq_ic (src_name x) (src_name y)
  /\ owned_cmp (src_owned x) (src_owned y) = cmp_ic (src_name x) (src_name y)
  /\ (owned_hash (src_owned x) = owned_hash (src_owned y) <-> eq_ic (src_name x) (src_name y) = true)
  /\ owned_hash (src_owned x) = hash_writes (src_name x).
Proof.
  intros Hx Hy.
  exact (conj (src_eq x y Hx Hy) (conj (src_cmp x y Hx Hy) (conj (src_hash x y) (src_hash_borrowed x)))).
Qed.
