(* Cgi/Names.v — model of src/cgi/mod.rs (VarName, OwnedVarName) and src/cgi/intern.rs
   (StaticVarName).  Strings are their UTF-8 byte lists.  No proofs here.
   The string table of StaticVarName and the chunk width of the hasher come from Gen/Generated.v
   (STATIC_VAR_NAMES, HASH_LANES), regenerated from the Rust source on every run. *)
From FV Require Import Base.Bytes Gen.Generated.

(* ---- core / std, modelled by documented behaviour ---- *)

(* u8::is_ascii_lowercase / is_ascii_uppercase: b'a'..=b'z' / b'A'..=b'Z' *)
Definition is_ascii_lower (b : N) : bool := (97 <=? b) && (b <=? 122).
Definition is_ascii_upper (b : N) : bool := (65 <=? b) && (b <=? 90).
(* u8::to_ascii_uppercase / to_ascii_lowercase: flips bit 5 (0x20) of ASCII letters only *)
Definition to_upper (b : N) : N := if is_ascii_lower b then b - 32 else b.
Definition to_lower (b : N) : N := if is_ascii_upper b then b + 32 else b.
(* str::make_ascii_uppercase / [u8]::make_ascii_uppercase: bytewise *)
Definition upper (s : bytes) : bytes := map to_upper s.

(* [u8]::eq_ignore_ascii_case (str::eq_ignore_ascii_case delegates to it):
     self.len() == other.len() && zip(self, other).all(|(a, b)| a.eq_ignore_ascii_case(b))
   with u8::eq_ignore_ascii_case(a, b) = a.to_ascii_lowercase() == b.to_ascii_lowercase() *)
Definition byte_eq_ic (a b : N) : bool := to_lower a =? to_lower b.
Definition eq_ignore_ascii_case (a b : bytes) : bool :=
  (len a =? len b) && forallb (fun p => byte_eq_ic (fst p) (snd p)) (combine a b).

(* Iterator::cmp on two byte iterators (also Ord for str / [u8]): lexicographic, a proper prefix is Less *)
Fixpoint lex_cmp (a b : bytes) : comparison :=
  match a, b with
  | [], [] => Eq
  | [], _ :: _ => Lt
  | _ :: _, [] => Gt
  | x :: a', y :: b' => match x ?= y with Eq => lex_cmp a' b' | c => c end
  end.

(* ---- VarName (borrowed), cgi/mod.rs:77-122 ---- *)

(* PartialEq for VarName, mod.rs:77-82 *)
Definition eq_ic (a b : bytes) : bool := eq_ignore_ascii_case a b.

(* Ord for VarName, mod.rs:92-98: compare the to_ascii_uppercase-mapped byte iterators *)
Definition cmp_ic (a b : bytes) : comparison := lex_cmp (map to_upper a) (map to_upper b).

(* Hash for VarName, mod.rs:100-122: the sequence of Hasher::write payloads.
   One write of the upper-cased chunk per full LANES-byte chunk (chunks_exact), then one write of
   the upper-cased remainder followed by 0xff.  [fuel] is structural only. *)
Fixpoint hash_chunks (fuel : nat) (s : bytes) : list bytes :=
  match fuel with
  | O => []
  | S k =>
    if HASH_LANES <=? len s
    then upper (take HASH_LANES s) :: hash_chunks k (drop HASH_LANES s)
    else [upper s ++ [255]]
  end.
(* None = panic: chunks_exact(0) panics ("chunk size must be non-zero") *)
Definition hash_writes (s : bytes) : option (list bytes) :=
  if HASH_LANES =? 0 then None else Some (hash_chunks (S (length s)) s).

(* ---- StaticVarName, cgi/intern.rs ---- *)

(* A StaticVarName is its variant index (declaration order) in the enum; index i is a value of the
   type iff i < len STATIC_VAR_NAMES. *)
Definition static_ok (i : N) : bool := i <? len STATIC_VAR_NAMES.
(* IntoStaticStr / AsRef<str>, intern.rs:143-148: the SCREAMING_SNAKE_CASE name of the variant *)
Definition static_str (i : N) : bytes := nth (N.to_nat i) STATIC_VAR_NAMES [].

(* EnumString with use_phf, intern.rs:14-16: exact (case-sensitive) lookup of the string among the
   variant names; None = Err(VariantNotFound) *)
Fixpoint index_of (s : bytes) (l : list bytes) (i : N) : option N :=
  match l with
  | [] => None
  | e :: l' => if beq s e then Some i else index_of s l' (i + 1)
  end.
Definition static_parse (s : bytes) : option N := index_of s STATIC_VAR_NAMES 0.

(* derived PartialEq: same variant *)
Definition static_eq (i j : N) : bool := i =? j.
(* Ord for StaticVarName, intern.rs:172-178: compares the names as strings *)
Definition static_cmp (i j : N) : comparison := lex_cmp (static_str i) (static_str j).

(* ---- OwnedVarName, cgi/mod.rs:125-324 ---- *)

(* VarNameInner, mod.rs:129-132 *)
Inductive owned := Static (i : N) | Custom (s : bytes).

(* AsRef<str>, mod.rs:252-260 (as_var / Borrow<VarName> wrap exactly this string) *)
Definition as_ref (o : owned) : bytes :=
  match o with Static i => static_str i | Custom s => s end.

(* From<&str>, mod.rs:183-190 *)
Definition from_str (s : bytes) : owned :=
  match static_parse s with Some i => Static i | None => Custom s end.

(* from_compact, mod.rs:161-167 *)
Definition from_compact (s : bytes) : owned :=
  let name := upper s in
  match static_parse name with Some i => Static i | None => Custom name end.

(* from_mut_str, mod.rs:153-156: returns the name and the caller's string after the call *)
Definition from_mut_str (s : bytes) : owned * bytes :=
  let name := upper s in (from_str name, name).

(* From<StaticVarName>, mod.rs:176-181 *)
Definition from_static (i : N) : owned := Static i.
(* From<&VarName> mod.rs:192-197, ToOwned mod.rs:269-276 *)
Definition from_var (s : bytes) : owned := from_str s.
Definition to_owned (s : bytes) : owned := from_var s.
(* From<String> mod.rs:199-206, From<Box<str>> mod.rs:208-215 *)
Definition from_string (s : bytes) : owned := from_compact s.
Definition from_box (s : bytes) : owned := from_compact s.
(* From<Cow<str>>, mod.rs:217-227 *)
Definition from_cow (is_owned : bool) (s : bytes) : owned :=
  if is_owned then from_string s else from_str s.

(* From<&http::HeaderName>, mod.rs:230-249: "HTTP_", then the pieces of head.split('-') joined
   by '_', then from_compact.  split_on gives the first piece and the remaining pieces. *)
Definition HTTP_PREFIX : bytes := [72; 84; 84; 80; 95].
Fixpoint split_on (c : N) (s : bytes) : bytes * list bytes :=
  match s with
  | [] => ([], [])
  | b :: s' => let (p, ps) := split_on c s' in
               if b =? c then ([], p :: ps) else (b :: p, ps)
  end.
Definition header_var (head : bytes) : bytes :=
  let (p, ps) := split_on 45 head in
  HTTP_PREFIX ++ p ++ flat_map (fun q => 95 :: q) ps.
Definition from_header (head : bytes) : owned := from_compact (header_var head).

(* PartialEq for OwnedVarName, mod.rs:291-299 *)
Definition owned_eq (a b : owned) : bool :=
  match a, b with
  | Static i, Static j => static_eq i j
  | _, _ => eq_ic (as_ref a) (as_ref b)
  end.

(* Ord for OwnedVarName, mod.rs:309-317 *)
Definition owned_cmp (a b : owned) : comparison :=
  match a, b with
  | Static i, Static j => static_cmp i j
  | _, _ => cmp_ic (as_ref a) (as_ref b)
  end.

(* Hash for OwnedVarName, mod.rs:319-324 *)
Definition owned_hash (o : owned) : option (list bytes) := hash_writes (as_ref o).

(* ---- statement vocabulary (not Rust code): representation observer, constructor enumeration ---- *)

Definition is_static (o : owned) : bool := match o with Static _ => true | Custom _ => false end.
(* a value of the type: the interned index denotes an existing variant *)
Definition owned_ok (o : owned) : bool := match o with Static i => static_ok i | Custom _ => true end.

(* the public constructors taking a string *)
Inductive ctor := CStr | CString | CBox | CCowBorrowed | CCowOwned | CMutStr | CVar | CToOwned.
Definition build (c : ctor) (s : bytes) : owned :=
  match c with
  | CStr => from_str s
  | CString => from_string s
  | CBox => from_box s
  | CCowBorrowed => from_cow false s
  | CCowOwned => from_cow true s
  | CMutStr => fst (from_mut_str s)
  | CVar => from_var s
  | CToOwned => to_owned s
  end.
Definition normalising (c : ctor) : bool :=
  match c with CString | CBox | CCowOwned | CMutStr => true | _ => false end.

(* every way of making an OwnedVarName, with the string it nominally denotes *)
Inductive src := SStr (c : ctor) (s : bytes) | SStatic (i : N) | SHeader (head : bytes).
Definition src_owned (x : src) : owned :=
  match x with SStr c s => build c s | SStatic i => from_static i | SHeader h => from_header h end.
Definition src_name (x : src) : bytes :=
  match x with SStr _ s => s | SStatic i => static_str i | SHeader h => header_var h end.
Definition src_ok (x : src) : bool := match x with SStatic i => static_ok i | _ => true end.
