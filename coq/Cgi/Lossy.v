(* Cgi/Lossy.v — transcription of compact_str 0.9.0 `CompactString::from_utf8_lossy`
   (its `next_char` automaton, compact_str-0.9.0/src/lib.rs:1286-1369), used to instantiate the
   `norm` parameter of the parser models for execution.  Theorems about the parsers hold for ANY
   function in its place; this instance is tied to the real crate by the correspondence check. *)
From FV Require Import Base.Bytes.

Definition REPLACEMENT : bytes := [239; 191; 189].      (* U+FFFD *)
Definition in_range (lo hi c : N) : bool := (lo <=? c) && (c <=? hi).

(* ensure_range!: consume the next byte if it lies in lo..=hi *)
Definition ensure (lo hi : N) (r : bytes) : option (N * bytes) :=
  match r with
  | x :: r' => if in_range lo hi x then Some (x, r') else None
  | [] => None
  end.

(* next_char: first byte c, remaining input r  ->  (bytes pushed, remaining input) *)
Definition next_char (c : N) (r : bytes) : bytes * bytes :=
  if in_range 0 127 c then ([c], r)
  else if in_range 194 223 c then
    match ensure 128 191 r with Some (x1, r1) => ([c; x1], r1) | None => (REPLACEMENT, r) end
  else if in_range 224 239 c then
    let first := if c =? 224 then ensure 160 191 r else if c =? 237 then ensure 128 159 r else ensure 128 191 r in
    match first with
    | None => (REPLACEMENT, r)
    | Some (x1, r1) =>
      match ensure 128 191 r1 with Some (x2, r2) => ([c; x1; x2], r2) | None => (REPLACEMENT, r1) end
    end
  else if in_range 240 244 c then
    let first := if c =? 240 then ensure 144 191 r else if c =? 244 then ensure 128 143 r else ensure 128 191 r in
    match first with
    | None => (REPLACEMENT, r)
    | Some (x1, r1) =>
      match ensure 128 191 r1 with
      | None => (REPLACEMENT, r1)
      | Some (x2, r2) =>
        match ensure 128 191 r2 with Some (x3, r3) => ([c; x1; x2; x3], r3) | None => (REPLACEMENT, r2) end
      end
    end
  else (REPLACEMENT, r).

Fixpoint lossy_fuel (fuel : nat) (d : bytes) : bytes :=
  match fuel with
  | O => []
  | S f => match d with
           | [] => []
           | c :: r => let '(e, r') := next_char c r in e ++ lossy_fuel f r'
           end
  end.
Definition lossy (d : bytes) : bytes := lossy_fuel (length d) d.
